"""Determinism self-test: every check's workers are re-executed with the same seed in fresh processes at
GOMAXPROCS 1, 4 and 16 (and under full parallel load); the per-execution event logs (execution index,
fingerprint of configuration/steps/results/schedule, step count, violation signature) must be identical.
A mismatch is an infrastructure error (exit 2): a check whose executions do not replay cannot be trusted."""
import concurrent.futures, json, os, subprocess, sys


def selftest(ids):
    import importlib.machinery, importlib.util
    here = os.path.dirname(os.path.abspath(__file__))
    loader = importlib.machinery.SourceFileLoader("check", os.path.join(here, "check"))
    spec = importlib.util.spec_from_loader("check", loader)
    chk = importlib.util.module_from_spec(spec)
    loader.exec_module(chk)
    from props import PROPS
    ids = ids or sorted(PROPS)
    nseeds = int(os.environ.get("VERIF_SELFTEST_SEEDS", "8"))
    bad, total = [], 0
    for pid in ids:
        spec_ = PROPS[pid]
        w = chk.Work(pid + "-selftest")
        chk.prepare(w, spec_.get("needs", []))
        bins = chk.build_tests(w, spec_["tests"])
        jobs = []
        for ti, t in enumerate(spec_["tests"]):
            if t["name"].endswith("Enum"):
                continue
            params = dict(t.get("params", {})); params.update(t["quick"])
            params["checks"] = max(20, min(200, params.get("checks", 100) // 10))
            for s in range(nseeds):
                seed = chk.mix_seed(7919 + s, ti, 0)
                for gmp in (1, 4, 16):
                    jobs.append((t, dict(params, gomaxprocs=gmp), seed, gmp))
        def one(job):
            t, params, seed, gmp = job
            idx = jobs.index(job)
            ev = os.path.join(w.out, "ev-%d.log" % idx)
            os.environ_lock = None
            t2 = dict(t); t2["env"] = dict(t.get("env", {}), VERIF_EVENTLOG=ev)
            r = chk.run_worker(w, bins[(t["pkg"], bool(t.get("race")))], t2, params, seed, idx, "quick")
            data = open(ev).read() if os.path.exists(ev) else ""
            return (chk.tid(t), seed, gmp, data, r)
        with concurrent.futures.ThreadPoolExecutor(max_workers=chk.NCPU) as ex:
            res = list(ex.map(one, jobs))
        groups = {}
        for name, seed, gmp, data, r in res:
            total += 1
            if r["res"] is None or r["res"]["status"] != "ok":
                bad.append("%s %s seed %d GOMAXPROCS=%d: worker status %s" % (pid, name, seed, gmp, r["res"] and r["res"]["status"]))
                continue
            groups.setdefault((name, seed), []).append((gmp, data))
        for (name, seed), runs in sorted(groups.items()):
            ref = runs[0][1]
            if not ref.strip():
                bad.append("%s %s seed %d: empty event log" % (pid, name, seed))
            for gmp, data in runs[1:]:
                if data != ref:
                    a, b = ref.splitlines(), data.splitlines()
                    k = next((i for i in range(min(len(a), len(b))) if a[i] != b[i]), min(len(a), len(b)))
                    bad.append("%s %s seed %d: event logs differ between GOMAXPROCS=%d and %d at execution %d: %r vs %r" % (
                        pid, name, seed, runs[0][0], gmp, k + 1, a[k] if k < len(a) else None, b[k] if k < len(b) else None))
        print("selftest %s: %d worker runs compared" % (pid, len(res)), flush=True)
        w.cleanup()
    if bad:
        for b in bad[:20]:
            print("NONDETERMINISM:", b)
        print("selftest: %d problems in %d worker runs (infrastructure error, exit 2)" % (len(bad), total))
        return 2
    print("selftest: all %d worker runs replayed identically across GOMAXPROCS 1/4/16" % total)
    return 0
