"""Per-property configuration of the simulated checks (see DESIGN.md section 5)."""

PROPS = {}

# hook commits in /repo (none: instrumentation exists only in scratch copies)
HOOK_COMMITS = []

_PENDING = "planned as a simulated check in DESIGN.md section 5, but the check is not built yet, so nothing is claimed"
NOT_APPLICABLE = {
    "C01": "pure function of (kind, field number, value, mode): no schedule, clock, fault, peer or carried state to simulate; decided by exhaustive/property-based enumeration, not by this technique",
    "C02": "byte-for-byte conformance with a reference encoder is a pure function of the input; decided by differential testing against protowire",
    "C04": "Size/Marshal/MarshalTo agreement on a freshly built message is a function of (schema, options, value); the only history-dependent ingredient (the size cache) is claimed under C09",
    "C05": "what a reference runtime decodes from Marshal output is a function of (schema, options, value); decided by differential testing with dynamicpb",
    "C07": "Unmarshal-then-Marshal of one byte string has no state outside the message and no fault: a pure function of the input",
    "C13": "for a freshly created decoder the accessors are a pure function of (bytes, definition, mode); the history- and schedule-dependent part of lazy decoding is claimed under C14/C15",
    "C17": "required-field enforcement is a function of (schema, set of populated required fields); decided by exhaustive subset enumeration",
    "C18": "the JSON adapters are functions of (message, options) with no state, schedule or fault; decided by differential testing against the runtimes' JSON codecs",
    "C03": _PENDING, "C06": _PENDING, "C08": _PENDING, "C09": _PENDING, "C10": _PENDING, "C11": _PENDING,
    "C12": _PENDING, "C14": _PENDING, "C15": _PENDING, "C16": _PENDING, "C19": _PENDING, "C20": _PENDING,
}

PROPS["C14"] = dict(
    level="exploration",
    engine="hist+simpool+medium",
    technique="deterministic simulation: seeded operation/fault histories over a lazy Decoder whose sync.Pool is a seeded model; self-differential oracle against a pristine decoder; rapid shrinking; replay file",
    design_ref="DESIGN.md 4.1, 4.3, 4.4, 5 (C14)",
    level_text=("Seeded search over operation histories, option tuples, pool behaviours (which object a Get returns, dropped Puts, forced misses, "
                "GC clears) and damaged inputs; every observation on a reused decoder is compared with the same observation on a pristine decoder, "
                "every call is checked for panics, and in safe mode every value handed out is re-checked after every later step. Sampling, not proof: "
                "a clean batch is evidence over the histories explored."),
    level_note=("Trusted: the pool model (a superset of runtime behaviour within the documented sync.Pool contract), the harness' wire writer, rapid. "
                "Values are judged self-differentially, so decode defects independent of reuse are out of scope; panics are judged on every call."),
    needs=[],
    rule=("one execution = one lazyproto.Decoder with drawn options/definition/pool policy and a drawn history of "
          "Decode/accessor/NestedResult(s)/Range/FieldData/Close operations and pool faults over 2-6 drawn inputs "
          "(valid or damaged by the medium); non-trivial = at least one Get was served from the pool model (a recycled "
          "object was reused) and at least one observation was judged against the pristine decoder; distinct = FNV hash "
          "of configuration, inputs and the step sequence"),
    real=["lazyproto/decode.go", "lazyproto/decode_result.go", "lazyproto/fielddata.go", "lazyproto/def.go", "csproto.Decoder underneath"],
    model=["sync.Pool -> seeded model of its documented contract (pick policy lifo/fifo/uniform/always-miss; faults drop_on_put, forced_miss, gc_clear)",
           "medium: truncation, bit flip, inflated length prefix applied to drawn inputs"],
    assumptions=["the pool model is a superset of what the runtime's sync.Pool does and a subset of what its documentation allows",
                 "values are compared with the same code on a pristine decoder (self-differential), so decode defects that do not depend on reuse are out of scope (C13, not claimed); panics are judged on every call"],
    tests=[dict(name="TestC14Hist", pkg="c14", race=False, mem_gb=4,
                quick=dict(workers=16, checks=25000, steps=40, watchdog_s=900),
                thorough=dict(workers=16, checks=600000, steps=50, watchdog_s=5400))],
)

PROPS["C15"] = dict(
    level="exploration",
    engine="coop+simpool",
    technique="deterministic simulation: real goroutines under a seeded cooperative scheduler that the race detector cannot see, sync.Pool replaced by a seeded model; self-differential oracle per client; rapid shrinking of scripts and schedules",
    design_ref="DESIGN.md 4.2, 4.3, 5 (C15)",
    level_text=("Seeded search over client scripts, interleavings (scheduling points before every API call and inside every pool Get/Put), pool behaviours and "
                "options. Every observation of every client must equal the pristine-decoder observation for that client's own input, no client may panic, and "
                "the race detector - which sees only the library's own synchronisation because all scheduler hand-offs are hidden from it - must stay silent. "
                "A data race is therefore reported deterministically under a serial schedule, without needing physical overlap. Sampling, not proof."),
    level_note=("Trusted: the scheduler's hiding of its own synchronisation (validated by selftest mutants), the pool model incl. the Put->Get happens-before "
                "edge it adds per object, the Go race detector. True parallel execution is replaced by serial schedules plus happens-before analysis."),
    needs=[],
    rule=("one execution = 2..N client goroutines sharing one lazyproto.Decoder, each with its own client-tagged inputs and a drawn script of "
          "Decode/accessor/Nested/Range/Close, under a drawn schedule and pool behaviour; non-trivial = at least one context switch, at least one Get "
          "served from the pool (object recycled between clients or iterations) and at least one judged observation; distinct = hash of configuration, "
          "inputs, scripts and the schedule's decision sequence"),
    real=["lazyproto/*.go", "csproto.Decoder underneath", "goroutines", "Go race detector (race-build tests)"],
    model=["choice of which goroutine runs (seeded scheduler)", "sync.Pool -> seeded model (same as C14) with the per-object Put->Get happens-before edge of a real pool"],
    assumptions=["a race between two accesses is found if both are executed in some explored run without a happens-before path created by the library itself",
                 "interleavings are explored at the granularity of the yield points (API calls, pool operations)"],
    tests=[dict(name="TestC15Coop", pkg="c15", race=True, params=dict(max_clients=6),
                quick=dict(workers=16, checks=1500, steps=30, watchdog_s=900),
                thorough=dict(workers=16, checks=30000, steps=30, watchdog_s=7200, max_clients=12)),
           dict(name="TestC15Coop", pkg="c15", race=False, mem_gb=4, params=dict(max_clients=6),
                quick=dict(workers=16, checks=6000, steps=30, watchdog_s=900),
                thorough=dict(workers=16, checks=100000, steps=30, watchdog_s=7200, max_clients=64))],
)

PROPS["C03"] = dict(
    alloc_is_property=True,  # a worker that exhausts its address-space limit (twice, second time alone) is a violation, not machine trouble
    level="exploration",
    engine="hist+medium",
    technique="deterministic simulation: seeded call histories on one csproto.Decoder over a writer-produced message damaged by a faulty medium; spec-derived item-length model, poisoned-tail twin run, allocation metering; plus exhaustive enumeration of truncations and bit flips of seed messages",
    design_ref="DESIGN.md 4.1, 4.4, 5 (C03)",
    level_text=("Seeded search over call sequences (all Decode*, DecodePacked*, DecodeNested, Skip, Seek, Reset, SetMode) starting at drawn offsets of buffers that a "
                "medium truncated, bit-flipped or whose length prefixes it inflated; after every call: no panic, cursor in [0,len], on success the cursor advanced by "
                "exactly the item length a spec-derived model computes, over-long declared lengths are errors (and the nested decoder is not invoked), heap allocation "
                "stays linear in the input, and a twin run whose memory beyond len(input) is filled differently gives identical results. The quick tier additionally "
                "enumerates every truncation offset and every single-bit flip of a fixed seed set for every method at every field start (exhaustive for that set)."),
    level_note="Trusted: the harness' writer and item-length model (written from the encoding spec, no csproto code), runtime/metrics allocation counter, rapid.",
    needs=[],
    rule=("one execution = one damaged (or alphabet-drawn) buffer, a drawn start offset and mode, and a drawn history of decoder calls executed on two twins that differ only "
          "in the bytes beyond len(input); non-trivial = at least one call consumed an item successfully and at least one call returned an error or reached the damaged byte; "
          "distinct = hash of input bytes and call sequence"),
    real=["every method of csproto.Decoder (decoder.go)"],
    model=["spec-derived item-length model (oracle)", "medium: truncate / bit flip / inflate or deflate a length prefix, poisoned tail", "recording stub Unmarshaler for DecodeNested"],
    assumptions=["value correctness of successfully decoded items is not judged (C01/C02, not claimed); only totality, cursor accounting, bounds and allocation"],
    tests=[dict(name="TestC03Hist", pkg="c03", race=False, mem_gb=4,
                quick=dict(workers=16, checks=100000, steps=25, watchdog_s=900),
                thorough=dict(workers=16, checks=2500000, steps=30, watchdog_s=7200)),
           dict(name="TestC03Enum", pkg="c03", race=False, mem_gb=4,
                quick=dict(workers=16, watchdog_s=900),
                thorough=dict(workers=16, watchdog_s=900))],
)

PROPS["C09"] = dict(
    level="exploration",
    engine="hist+coop",
    technique="deterministic simulation: seeded mutation/marshal histories on regenerated fast-marshal types against a fresh-copy oracle; concurrent readers under the invisible cooperative scheduler with the race detector",
    design_ref="DESIGN.md 4.1, 4.2, 4.9, 5 (C09)",
    level_text=("History part: seeded search over histories of field mutations, Size/Marshal/MarshalTo through generated methods, csproto and the owning runtime, "
                "Unmarshal, Reset and Clone on every message type of the regenerated example corpus (87 types, three runtimes) and on plain runtime types without generated methods (protobuf-go WKTs and descriptor "
                "messages, gogo types, a golang-v1 type), including MarshalTo into a buffer the caller sized without calling Size on the object; every Marshal must equal - modulo "
                "map-entry order - the same call on a brand-new struct holding the same contents, and must not panic. Schedule part: 2..N goroutines run drawn "
                "scripts of Size/Marshal calls on one shared, unmutated message under a seeded scheduler with yields before every call and before every size-cache "
                "atomic in the regenerated code; every result must equal the fresh-copy result and the race detector must stay silent. Sampling, not proof."),
    level_note=("Trusted: protobuf-go's reflection (incl. its legacy wrapper for gogo structs) used to mutate, copy and digest messages; dynamicpb for map-order "
                "canonicalisation; the regeneration pipeline (byte-identical to the checked-in files on the unchanged tree)."),
    needs=["corpus"],
    rule=("history test: one execution = one corpus type, drawn initial contents and a drawn history over {mutate, Size x3, Marshal x4 flavours, Unmarshal, Reset, Clone}; "
          "non-trivial = at least one judged Marshal came after at least one earlier mutation or marshalling operation on the same object; coop test: one execution = one populated message shared by 2..N clients with drawn "
          "scripts and schedule; non-trivial = at least one context switch and two judged observations; distinct = hash of type, contents, steps/scripts and schedule"),
    real=["regenerated Size/Marshal/MarshalTo/Unmarshal of all example types", "csproto.Size/Marshal/Unmarshal/Clone/Reset", "gogo/protobuf and protobuf-go Size/Marshal", "goroutines, atomics, race detector"],
    model=["choice of which goroutine runs", "fresh deep copy built field by field through protoreflect (oracle)"],
    assumptions=["the corpus is the repository's example schemas regenerated with the Makefile's options; other schemas/options are input space (C04/C16)"],
    tests=[dict(name="TestC09Hist", pkg="c09", race=False, mem_gb=4,
                quick=dict(workers=16, checks=3000, steps=25, watchdog_s=900),
                thorough=dict(workers=16, checks=200000, steps=30, watchdog_s=7200)),
           dict(name="TestC09Coop", pkg="c09", race=True, params=dict(max_clients=4),
                quick=dict(workers=16, checks=300, steps=25, watchdog_s=900),
                thorough=dict(workers=16, checks=20000, steps=25, watchdog_s=7200, max_clients=16)),
           dict(name="TestC09Coop", pkg="c09", race=False, mem_gb=4, id="TestC09Coop.norace", params=dict(max_clients=8),
                quick=dict(workers=8, checks=1000, steps=25, watchdog_s=900),
                thorough=dict(workers=16, checks=100000, steps=25, watchdog_s=7200, max_clients=64))],
)

PROPS["C10"] = dict(
    level="exploration",
    engine="hist+medium",
    technique="deterministic simulation of a receive path with one reusable buffer: seeded histories of deliver/decode/keep and buffer faults (overwrite, poison, shift, truncate+re-append) at arbitrary later instants; digest-at-hand-out oracle; rapid shrinking",
    design_ref="DESIGN.md 4.1, 4.4, 5 (C10)",
    level_text=("Seeded search over histories in which frames are delivered into one reusable buffer, decoded by the regenerated default-mode Unmarshal of every corpus type "
                "(generated method and csproto.Unmarshal) or by lazyproto in safe mode (Decoder.Decode and the deprecated Decode function), results and accessor values are "
                "kept, and the buffer is later overwritten, poisoned, shifted or truncated and re-appended - also between two accessor calls on a live lazy result. "
                "Every retained message/value must keep the digest taken at hand-out time; lazy accessors called after a fault must still show the frame as delivered. "
                "Fast mode runs the same histories judged for panics only (opt-in is excluded by the property). Sampling, not proof."),
    level_note="Trusted: protobuf-go reflection (digest, frame encoding without csproto), the harness buffer model, rapid.",
    needs=["corpus"],
    rule=("one execution = one corpus type (gen test) or one lazy definition/option tuple (lazy test), 2-5 frames, and a drawn history of deliver+decode, accessor, nested, "
          "close and buffer-fault events; non-trivial = at least one buffer fault fired while a decoded message, live lazy result or handed-out value was retained; "
          "distinct = hash of type/definition, frames and steps"),
    real=["regenerated default-mode Unmarshal of all example types", "csproto.Unmarshal dispatch", "csproto.Decoder", "lazyproto (both entry points, all accessors)"],
    model=["the caller's receive buffer and its recycling", "pool model fixed to LIFO without faults (pool behaviour is not under study here)"],
    assumptions=["enableunsafedecode builds are not regenerated here; the opt-in fast path is exercised through lazyproto's fast mode and judged for panics only"],
    tests=[dict(name="TestC10Gen", pkg="c10", race=False, mem_gb=4,
                quick=dict(workers=16, checks=1500, steps=20, watchdog_s=900),
                thorough=dict(workers=16, checks=300000, steps=25, watchdog_s=7200)),
           dict(name="TestC10Lazy", pkg="c10", race=False, mem_gb=4,
                quick=dict(workers=16, checks=4000, steps=30, watchdog_s=900),
                thorough=dict(workers=16, checks=800000, steps=40, watchdog_s=7200))],
)

PROPS["C19"] = dict(
    level="exploration",
    engine="hist+medium",
    technique="deterministic simulation: seeded field sequences through one Encoder over an exactly sized, pattern-filled buffer with failing Marshaler/MarshalerTo/Unmarshaler collaborators injected at drawn positions; model cursor oracle; read-back through a truncating medium",
    design_ref="DESIGN.md 4.1, 5 (C19)",
    level_text=("Seeded search over sequences of scalar and nested fields of five flavours (regenerated fast-marshal types, Size+Marshal-only stub, MarshalTo stub, plain gogo, "
                "legacy golang/protobuf v1, plain protobuf-go v2 incl. well-known types) at first/middle/last position. After each EncodeNested the bytes written must be key + "
                "length + exactly csproto.Marshal(m) (modulo map order), everything beyond the model cursor must still hold the fill pattern, and an injected error must come "
                "back unchanged. The buffer is then read back with DecodeNested into matching types or stub Unmarshalers that fail on demand, optionally truncated inside a nested "
                "payload: the cursor must move by prefix + declared length, the message must equal the original, the stub's error must propagate, and a declared length beyond "
                "the buffer must be rejected without invoking the nested decoder. Sampling, not proof."),
    level_note="Trusted: protowire (model bytes), protobuf-go reflection for populating and comparing messages, the stubs.",
    needs=["corpus"],
    rule=("one execution = 1-6 drawn fields (scalars and nested messages of drawn flavours and values, incl. empty), at most one injected encode failure, followed by a read-back with drawn "
          "decode targets, decode failure and medium fault; non-trivial = at least one field was encoded and judged; distinct = hash of flavours and steps"),
    real=["Encoder.EncodeNested, Encoder scalar methods", "Decoder.DecodeNested/DecodeTag", "csproto.Size/Marshal/Unmarshal dispatch", "regenerated fast-marshal types and plain runtime types"],
    model=["model cursor and expected bytes (protowire)", "failing / Marshal-only collaborators (stubs by design of the property)", "medium: truncation inside a nested payload"],
    assumptions=["nested values whose csproto.Marshal itself fails or panics (C04/C17-class pure-input defects) are skipped and counted, not judged"],
    tests=[dict(name="TestC19Hist", pkg="c19", race=False, mem_gb=4,
                quick=dict(workers=16, checks=8000, steps=20, watchdog_s=900),
                thorough=dict(workers=16, checks=24000000, steps=20, watchdog_s=7200))],
)

PROPS["C11"] = dict(
    level="exploration",
    engine="coop",
    technique="deterministic simulation: goroutines racing on the first classification of freshly uncached types under the invisible cooperative scheduler (yield before every sync.Map access), race detector, per-operation comparison with the owning runtime called directly",
    design_ref="DESIGN.md 4.2, 5 (C11)",
    level_text=("Seeded search over client scripts and interleavings: the process-wide type cache is emptied before every run and 2..N goroutines call MsgType, Marshal, Unmarshal, Size, "
                "Clone, Equal (same type, same runtime, cross runtime), Reset, MarshalText and the gRPC codec on values of up to four types (regenerated fast-marshal types and plain "
                "types of gogo, legacy golang/protobuf v1 and protobuf-go v2) and on unsupported values (nil, struct, pointer to non-message, error, int, typed nil). Every MsgType must "
                "equal the class the type was built for, every dispatcher result must equal the owning runtime's function (or, for fast-marshal types, the type's own generated method: "
                "dispatch transparency) applied to a private copy, unsupported values must give the documented error/zero result without panicking, and the race detector must stay silent."),
    level_note=("Trusted: the runtimes called directly as oracles, protobuf-go reflection for copies and digests. The dispatcher comparison involves no schedule; it is part of this "
                "workload because the property puts it there. Correctness of generated Marshal/Unmarshal themselves (C04-C07) is not judged: fast-marshal types are compared with their own methods."),
    needs=["corpus"],
    rule=("one execution = up to four drawn types with drawn contents, 2..N clients with drawn scripts, a drawn schedule; non-trivial = at least one context switch and two judged operations; "
          "distinct = hash of types, scripts and schedule"),
    real=["marshal.go, sizeof.go, message_types.go (sync.Map seam with yields), clone.go, equal.go, reset.go, marshal_text.go, grpc_codec.go", "the three runtimes", "goroutines, race detector"],
    model=["choice of which goroutine runs", "legacy message fixture = prometheus client_model types generated in 2019 (no ProtoReflect)"],
    assumptions=["classification stability is explored at the granularity of the yields before each sync.Map access"],
    tests=[dict(name="TestC11Coop", pkg="c11", race=True, params=dict(max_clients=4),
                quick=dict(workers=16, checks=400, steps=25, watchdog_s=900),
                thorough=dict(workers=16, checks=30000, steps=25, watchdog_s=7200, max_clients=16)),
           dict(name="TestC11Coop", pkg="c11", race=False, mem_gb=4, id="TestC11Coop.norace", params=dict(max_clients=8),
                quick=dict(workers=8, checks=1500, steps=25, watchdog_s=900),
                thorough=dict(workers=16, checks=150000, steps=25, watchdog_s=7200, max_clients=64))],
)

PROPS["C12"] = dict(
    level="exploration",
    engine="hist",
    technique="deterministic simulation: seeded histories of Set/Get/Has/Clear/ClearAll/Range/ExtensionFieldNumber, runtime round trips (lazily decoded extensions) and mismatched-runtime descriptors against a model map and the owning runtime's own extension API; rapid shrinking",
    design_ref="DESIGN.md 4.1, 5 (C12)",
    level_text=("Seeded search over operation histories on messages with extensions of each runtime: gogo (example BaseEvent with a message-typed extension, descriptor.FieldOptions/"
                "MessageOptions with bool and string gogoproto extensions), protobuf-go v2 (example BaseEvent of both the googlev1 and googlev2 packages with the message-typed "
                "extension plus bool/int32/string/bytes/enum extensions built dynamically, descriptorpb.FeatureSet with gofeaturespb, a dynamicpb message of BaseEvent), and a hand-written pre-ProtoReflect legacy "
                "fixture that is classified MessageTypeGoogleV1 (with one deliberately unregistered extension). Perturbation steps pass a typed nil and a non-extendable dynamic message through the accessors. After every step: Has/Get agree with a model map and with the owning runtime's own API, Range visits exactly the set "
                "field numbers and propagates a failing callback's error, cleared extensions are absent from csproto.Marshal output, and a descriptor of another runtime yields "
                "false/error (ClearExtension: documented panic) and leaves the message unchanged."),
    level_note="Trusted: the runtimes' own extension APIs (oracle), protobuf-go reflection for digests, the legacy fixture.",
    needs=["corpus"],
    rule=("one execution = one host message type and a drawn history over the operation alphabet; non-trivial = at least two judged operations; distinct = hash of host and steps"),
    real=["extensions.go (all three arms)", "message_types.go", "gogo / golang v1 / protobuf-go extension APIs incl. lazy decoding after a runtime round trip", "regenerated BaseEvent Marshal for the absence check"],
    model=["extension map (oracle)", "hand-written legacy message fixture and dynamic extension descriptors"],
    assumptions=["golang/protobuf's ExtensionDesc is an alias of protobuf-go's ExtensionInfo, so only gogo<->google descriptor pairs are real mismatches"],
    tests=[dict(name="TestC12Hist", pkg="c12", race=False, mem_gb=4,
                quick=dict(workers=16, checks=3000, steps=30, watchdog_s=900),
                thorough=dict(workers=16, checks=1500000, steps=40, watchdog_s=7200))],
)

PROPS["C08"] = dict(
    oom_probe=dict(test="TestC08One", env="VERIF_C08_ONE"),  # isolated re-execution of the last traced decode after an out-of-memory death
    alloc_is_property=True,  # a worker that exhausts its address-space limit (twice, second time alone) is a violation, not machine trouble
    level="fault_enumeration",
    engine="medium",
    technique="deterministic fault injection on a stored message: writer -> faulty medium -> regenerated Unmarshal vs dynamicpb reference; exhaustive single-fault enumeration (every truncation offset, every bit flip) per drawn small message plus seeded fault combinations; allocation metering",
    design_ref="DESIGN.md 4.4, 5 (C08)",
    level_text=("For drawn valid messages (fully populated or sparse: 1-3 fields) of every corpus type (87 types, three runtimes), written by the harness's reference encoder, the medium damages the stored bytes: for messages of "
                "up to 160 bytes every truncation offset and every single-bit flip is enumerated, otherwise the undamaged message plus a drawn combination of up to three faults (truncate, bit flip, inflate/deflate a "
                "length prefix incl. 2^31-1/2^31/2^63, duplicate or drop a record) is applied, and (always in the exhaustive mode, else 1 in 2) every top-level length prefix is swept over "
                "nineteen values from len+1 to 2^64-1. The regenerated Unmarshal must not panic, must allocate linearly in the input, and whenever "
                "it and the reference runtime (dynamicpb on the schema's own descriptor) both accept, the decoded messages must have the same canonical digest. A reader rejecting what the "
                "other accepts is not a violation (the property only constrains the accept/accept case). No scheduler or clock is involved: this is the single-actor corner of the technique."),
    level_note="Trusted: the reference encoder, dynamicpb + protodesc, protobuf-go's legacy wrapper for reading gogo structs, runtime/metrics.",
    needs=["corpus"],
    rule=("one execution = one drawn message of one corpus type and either all single faults of that message or one drawn fault combination; evaluations counts executions, logical_steps counts "
          "damaged variants read; non-trivial = at least one variant was read by both readers' pipeline; distinct = hash of type and message bytes"),
    real=["regenerated default-mode Unmarshal of all example types", "csproto.Decoder underneath", "protobuf-go dynamicpb reader (oracle)"],
    model=["writer (reference encoder)", "medium"],
    assumptions=["enableunsafedecode builds are not regenerated; termination is enforced by the worker watchdog rather than per call"],
    tests=[dict(name="TestC08Medium", pkg="c08", race=False, mem_gb=4,
                quick=dict(workers=16, checks=6000, steps=1, watchdog_s=900),
                thorough=dict(workers=16, checks=150000, steps=1, watchdog_s=7200))],
)

PROPS["C06"] = dict(
    level="exploration",
    engine="hist",
    technique="deterministic simulation: seeded histories that dirty a destination message (populate, mutate, warm the size cache, earlier and failed Unmarshals) before Unmarshal; self-differential oracle against a fresh destination; rapid shrinking",
    design_ref="DESIGN.md 4.1, 5 (C06)",
    level_text=("ONLY the clause 'the result does not depend on what the destination message contained before the call' is claimed. A drawn history dirties a destination of a corpus type "
                "(populate, mutate, Size/Marshal to warm the cache, an earlier Unmarshal of other bytes, a failed Unmarshal of truncated bytes); then the same bytes (a reference-encoded "
                "drawn message, or the zero-length encoding) are decoded into the dirty destination and into a fresh one, through the generated method or csproto.Unmarshal: error nil-ness, "
                "canonical digests and the two subsequent Marshals must agree. Process-wide history is covered by canaries: the first canonical encoding of each type that a worker "
                "process decoded successfully is decoded again after every later execution (which include failed decodes of damaged bytes) and must give the same outcome. The clause about every legal encoding variant (order, packing, splits, duplicates, map-entry shapes) is input "
                "space and is NOT covered."),
    level_note="Trusted: protobuf-go reflection for populating and digesting, the reference encoder. Self-differential: decode defects independent of the destination are out of scope.",
    needs=["corpus"],
    rule=("one execution = one corpus type, one input (drawn message or empty) and a drawn dirtying history of 1-5 steps; non-trivial = the destination was dirtied by at least one step; "
          "distinct = hash of type, input bytes and steps"),
    real=["regenerated Unmarshal/Marshal/Size/Reset of all example types", "csproto.Unmarshal dispatch"],
    model=["fresh-destination twin (oracle)"],
    assumptions=["agreement with the reference runtime on every legal encoding is not judged here (input space; see C08 for the accept/accept comparison on damaged inputs)"],
    tests=[dict(name="TestC06Hist", pkg="c06", race=False, mem_gb=4,
                quick=dict(workers=16, checks=8000, steps=1, watchdog_s=900),
                thorough=dict(workers=16, checks=1500000, steps=1, watchdog_s=7200))],
)

PROPS["C20"] = dict(
    level="exploration",
    engine="iosim+medium",
    technique="deterministic simulation of protodump's input seam: dumpProtoFile fed through a seeded io.Reader (short reads, zero-length reads, error after n bytes, truncation) and the built binary fed through file / pipe with drawn chunking / -file; reference walk oracle; rapid shrinking",
    design_ref="DESIGN.md 4.7, 5 (C20)",
    level_text=("Seeded search over drawn messages (valid or damaged by truncation / bit flip), drawn -expand / -strings path sets and drawn reader behaviour. In process, an added in-package "
                "test runs dumpProtoFile with a reader that delivers 1..7-byte chunks, interleaves (0,nil) reads and fails after n bytes; one run in eight also starts the built binary with "
                "stdin as a regular file, as a pipe written in drawn chunks or in one write, or with -file. protodump must never crash; a failing reader or input that runs past its end must "
                "be reported as an error (non-zero exit); for input the reference walk accepts, stdout must parse into exactly the reference's (depth, tag, kind, value) sequence, recursing "
                "into exactly the requested paths, independent of chunking and of the kind of stdin. Inputs whose validity is a matter of leniency (field number 0 or >= 2^26, over-long "
                "varints, group wire types, string payloads with line breaks) are judged for crashes only. By-product: every message enters as annotated hex with drawn spacing, line "
                "breaks and ';' comments and ParseAnnotatedHex must return the source bytes (a pure function; not claimed as simulation)."),
    level_note="Trusted: the harness's reference walk and tolerant output parser (output it cannot read is exit 2, not a violation), the helper test file added to the scratch copy of cmd/protodump.",
    needs=["protodump"],
    rule=("one execution = one drawn message, damage, path sets and reader behaviour, judged through the reader seam and (1 in 8) through the process; non-trivial = the reference walk finds at "
          "least one entry; distinct = hash of message bytes and steps"),
    real=["dumpProtoFile, dumpProto, tagpath.go", "main() at process level (flag parsing, stdin handling)", "prototest.ParseAnnotatedHex"],
    model=["io.Reader (chunking, zero-length reads, error after n bytes)", "kind of stdin (regular file, pipe, -file)", "medium (truncation, bit flip)"],
    assumptions=["annotated-hex corruption cases and the empty/char-device stdin cases are judged for crashes only"],
    tests=[dict(name="TestC20IO", pkg="c20", race=False, mem_gb=4,
                quick=dict(workers=16, checks=1500, steps=1, watchdog_s=900),
                thorough=dict(workers=16, checks=150000, steps=1, watchdog_s=7200))],
)

PROPS["C16"] = dict(
    level="exploration",
    engine="envsim",
    technique="deterministic simulation of the generator's environment: the plug-in's real run() inside a testing/synctest bubble with a positioned fake clock, drawn working directory, environment and GOMAXPROCS, plus the built binary as a process with drawn stdin chunking; byte comparison of responses to identical requests",
    design_ref="DESIGN.md 4.6, 5 (C16)",
    level_text=("ONLY the determinism clause is claimed (plus what the pipeline observes anyway). For each of the nine example schemas' CodeGeneratorRequests and drawn option variants "
                "(enableunsafedecode, filepermessage on/off, special names), 3-6 runs of the identical request are made under a drawn simulated clock position (0, 1 ns, across second / "
                "minute / day / year boundaries, +10 years), working directory, scrubbed and randomised environment (incl. TZ, SOURCE_DATE_EPOCH, USER, HOME...), GOMAXPROCS, in process "
                "(real run(): flag parsing, protogen, doGenerate, templates) and as a real process with stdin delivered in drawn chunk sizes; all responses must be byte-identical. "
                "By-product, not simulation: the plug-in reports no error, no output file name occurs twice, names end in .pb.fm.go and every file parses as Go; that the example corpus "
                "compiles with the runtimes' message types is established by every other check's build of the regenerated corpus. Random schemas and the full option x feature product are "
                "input space and not covered; Go map iteration order is sampled by repetition, not controlled."),
    level_note="Trusted: testing/synctest (go1.26.8) as the fake clock, the helper test file added to the scratch copy, the request extractor (byte-identical regeneration on the unchanged tree).",
    needs=["plugin", "fastmarshal_helper"],
    sim_time="the generator reads time.Now(); the simulated clock is positioned per run inside a synctest bubble; the span covered is reported as extra.simulated_clock_span_s (sum over executions) - no timers or deadlines exist in the code",
    rule=("one execution = one example request with a drawn option variant, run 3-6 times under drawn clock/cwd/environment/GOMAXPROCS/stdin framing; every execution is non-trivial (at least two "
          "differently situated runs are compared); distinct = hash of request name, parameters and steps"),
    real=["run(), doGenerate, generator.go, funcs.go, render.go, the three templates, protogen", "the built plug-in as a process"],
    model=["clock (synctest bubble)", "working directory", "environment", "GOMAXPROCS", "stdin chunking"],
    assumptions=["an environment variable that is not in the drawn set, the host name and the process id are not controlled (the latter two differ between the helper and the process runs anyway)"],
    tests=[dict(name="TestC16Env", pkg="c16", race=False, mem_gb=4,
                quick=dict(workers=16, checks=60, steps=1, watchdog_s=1500),
                thorough=dict(workers=16, checks=500, steps=1, watchdog_s=7200))],
)
