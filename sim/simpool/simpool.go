// Package simpool is a seeded model of the documented sync.Pool contract: a Get returns any stored
// object or misses; a Put may be dropped; the pool may be emptied at any time. Which of these happens
// is decided by the simulator's single choice source, so one seed is one execution.
package simpool

import (
	"reflect"
	"unsafe"

	"github.com/CrowdStrike/csproto/lazyproto"
)

// ident gives pooled objects an identity that is safe for any dynamic type (a pool may hold slices or
// other uncomparable values): the address they refer to, or nil if there is none.
func ident(x any) unsafe.Pointer {
	v := reflect.ValueOf(x)
	switch v.Kind() {
	case reflect.Pointer, reflect.UnsafePointer, reflect.Map, reflect.Chan, reflect.Func:
		return v.UnsafePointer()
	case reflect.Slice:
		if v.Cap() > 0 {
			return v.Slice(0, v.Cap()).Index(0).Addr().UnsafePointer()
		}
	}
	return nil
}

// Policy is how a Get picks among stored objects.
type Policy int

const (
	LIFO Policy = iota // what one P of the real pool usually shows
	FIFO
	Uniform
	AlwaysMiss
	NPolicies
)

func (p Policy) String() string {
	return [...]string{"lifo", "fifo", "uniform", "always-miss"}[p]
}

// Chooser is the simulator's choice source (rapid on the scheduler goroutine).
type Chooser interface {
	Intn(n int, label string) int // uniform in [0,n)
}

// Config is drawn once per run.
type Config struct {
	Policy        Policy
	DropOnPutPct  int // a Put is discarded (the real pool under -race drops 1 in 4)
	ForcedMissPct int // a Get ignores a non-empty pool
}

// Stats are counted when something actually fired.
type Stats struct {
	Gets, Puts, Hits, Misses     int
	DroppedPuts, ForcedMisses    int
	GCClears, ObjectsClearedByGC int
	DoublePuts                   int // same object stored twice (probe, not a violation)
	RecycledAcrossPools          int // object offered to a pool that did not create it (probe)
	MaxOccupancy                 int
	Pools                        int
}

type poolState struct {
	idx    int
	stored []any
}

// Model is the pool model. It is not safe for concurrent use: in cooperative runs only the scheduler
// goroutine calls it.
type Model struct {
	Cfg      Config
	Ch       Chooser
	Pristine bool // oracle mode: every Get misses, every Put is discarded, nothing is counted
	pools    map[*lazyproto.VerifPool]*poolState
	order    []*poolState
	origin   map[unsafe.Pointer]int // object identity -> pool index that first saw it
	S        Stats
}

// New returns an empty model.
func New(cfg Config, ch Chooser) *Model {
	return &Model{Cfg: cfg, Ch: ch, pools: map[*lazyproto.VerifPool]*poolState{}, origin: map[unsafe.Pointer]int{}}
}

func (m *Model) pool(p *lazyproto.VerifPool) *poolState {
	ps := m.pools[p]
	if ps == nil {
		ps = &poolState{idx: len(m.order)}
		m.pools[p] = ps
		m.order = append(m.order, ps)
		m.S.Pools++
	}
	return ps
}

// Get implements the model side of (*VerifPool).Get.
func (m *Model) Get(p *lazyproto.VerifPool) (any, bool) {
	if m.Pristine {
		return nil, false
	}
	ps := m.pool(p)
	m.S.Gets++
	n := len(ps.stored)
	if n == 0 || m.Cfg.Policy == AlwaysMiss {
		m.S.Misses++
		return nil, false
	}
	if m.Cfg.ForcedMissPct > 0 && m.Ch.Intn(100, "forced_miss") < m.Cfg.ForcedMissPct {
		m.S.ForcedMisses++
		m.S.Misses++
		return nil, false
	}
	i := n - 1
	switch m.Cfg.Policy {
	case FIFO:
		i = 0
	case Uniform:
		i = n - 1 - m.Ch.Intn(n, "pool_pick")
	}
	x := ps.stored[i]
	ps.stored = append(ps.stored[:i], ps.stored[i+1:]...)
	m.S.Hits++
	return x, true
}

// Put implements the model side of (*VerifPool).Put.
func (m *Model) Put(p *lazyproto.VerifPool, x any) {
	if m.Pristine {
		return
	}
	ps := m.pool(p)
	m.S.Puts++
	if id := ident(x); id != nil {
		if o, ok := m.origin[id]; !ok {
			m.origin[id] = ps.idx
		} else if o != ps.idx {
			m.S.RecycledAcrossPools++
		}
		for _, y := range ps.stored {
			if ident(y) == id {
				m.S.DoublePuts++
			}
		}
	}
	if m.Cfg.DropOnPutPct > 0 && m.Ch.Intn(100, "drop_on_put") < m.Cfg.DropOnPutPct {
		m.S.DroppedPuts++
		return
	}
	ps.stored = append(ps.stored, x)
	if len(ps.stored) > m.S.MaxOccupancy {
		m.S.MaxOccupancy = len(ps.stored)
	}
}

// GCClear empties every pool (what a garbage collection may do at any time).
func (m *Model) GCClear() int {
	n := 0
	for _, ps := range m.order {
		n += len(ps.stored)
		ps.stored = nil
	}
	m.S.GCClears++
	m.S.ObjectsClearedByGC += n
	return n
}

// Occupancy returns the number of stored objects per pool, in order of first use.
func (m *Model) Occupancy() []int {
	out := make([]int, len(m.order))
	for i, ps := range m.order {
		out[i] = len(ps.stored)
	}
	return out
}

// Current is the router all pools of the process consult. It is written only while no client
// goroutine is alive.
var Current lazyproto.VerifPoolModel

type dispatcher struct{}

func (dispatcher) Get(p *lazyproto.VerifPool) (any, bool) { return Current.Get(p) }
func (dispatcher) Put(p *lazyproto.VerifPool, x any)      { Current.Put(p, x) }

func init() { lazyproto.VerifPoolHook = dispatcher{} }
