// Package c15 checks C15: one lazy Decoder shared by concurrent goroutines.
//
// 2..N clients (real goroutines under the cooperative scheduler) share one lazyproto.Decoder whose
// pools are the seeded pool model. Each client decodes its own client-tagged inputs, reads flat and
// nested values, keeps several results live and closes them. Scheduling points: before every API call
// and inside every pool Get/Put. Oracles: every observation equals the pristine-decoder observation
// for that client's input; no panic; the race detector (which cannot see the scheduler) reports nothing.
package c15

import (
	"fmt"
	"strings"
	"testing"

	"github.com/CrowdStrike/csproto"
	"github.com/CrowdStrike/csproto/lazyproto"
	"google.golang.org/protobuf/runtime/protoimpl"
	"pgregory.net/rapid"

	"verifsim/coop"
	"verifsim/lazysim"
	"verifsim/rep"
	"verifsim/simpool"
	"verifsim/wirex"
)

type chooser struct{ t *rapid.T }

func (c chooser) Intn(n int, label string) int { return rapid.IntRange(0, n-1).Draw(c.t, label) }

const (
	opDecode = iota
	opAccess
	opNested
	opRange
	opClose
)

type op struct {
	kind  int
	sel   int // handle selector (mod live count)
	input int
	tag   int
	acc   int
	viaFD bool
	multi bool
	which int
}

type handle struct {
	input int
	res   *lazyproto.DecodeResult
	path  []lazysim.Nav
	top   *handle
}

type obs struct {
	desc  string
	input int
	path  []lazysim.Nav
	kind  int
	tag   int
	acc   int
	viaFD bool
	multi bool
	got   string
}

type client struct {
	id     int
	inputs [][]byte
	script []op
	obs    []obs
	live   []*handle
}

var active *coop.Sched

func init() {
	csproto.VerifYield = func(where string) {
		if s := active; s != nil {
			s.Yield(where)
		}
	}
	lazyproto.VerifYield = csproto.VerifYield // scheduling points before atomic operations inside lazyproto
	// scheduling points inside the protobuf-go runtime (before its size-cache atomics)
	protoimpl.VerifSetYield(func(where string) {
		if s := active; s != nil {
			s.Yield(where)
		}
	})
}

func (c *client) run(s *coop.Sched, dec *lazyproto.Decoder) {
	for _, o := range c.script {
		var h *handle
		if o.kind != opDecode {
			if len(c.live) == 0 {
				continue
			}
			h = c.live[len(c.live)-1-o.sel%len(c.live)]
		}
		s.Yield("api")
		switch o.kind {
		case opDecode:
			if len(c.live) >= 6 {
				continue
			}
			in := o.input % len(c.inputs)
			res, err := dec.Decode(c.inputs[in])
			c.obs = append(c.obs, obs{desc: "Decode", input: in, kind: opDecode, got: fmt.Sprintf("%s nil=%v", lazysim.ErrClass(err), res == nil)})
			if err == nil && res != nil {
				nh := &handle{input: in, res: res}
				nh.top = nh
				c.live = append(c.live, nh)
			}
		case opAccess:
			a := lazysim.Accessors[o.acc]
			out, _ := lazysim.Observe(h.res, a, o.tag, o.viaFD)
			c.obs = append(c.obs, obs{desc: a.Name, input: h.input, path: h.path, kind: opAccess, tag: o.tag, acc: o.acc, viaFD: o.viaFD, got: out.String()})
		case opNested:
			if len(h.path) >= 2 || len(c.live) >= 10 {
				continue
			}
			var n int
			var err error
			var pickd *lazyproto.DecodeResult
			nav := lazysim.Nav{Tag: o.tag, Multi: o.multi}
			if o.multi {
				var rs []*lazyproto.DecodeResult
				rs, err = h.res.NestedResults(o.tag)
				n = len(rs)
				if n > 0 {
					nav.Idx = o.which % n
					pickd = rs[nav.Idx]
				}
			} else {
				pickd, err = h.res.NestedResult(o.tag)
				if pickd != nil {
					n = 1
				}
			}
			c.obs = append(c.obs, obs{desc: "Nested", input: h.input, path: h.path, kind: opNested, tag: o.tag, multi: o.multi, got: fmt.Sprintf("%s n=%d", lazysim.ErrClass(err), n)})
			if pickd != nil {
				nh := &handle{input: h.input, res: pickd, top: h.top}
				nh.path = append(append([]lazysim.Nav(nil), h.path...), nav)
				c.live = append(c.live, nh)
			}
		case opRange:
			c.obs = append(c.obs, obs{desc: "Range", input: h.input, path: h.path, kind: opRange, got: lazysim.RangeOutcome(h.res)})
		case opClose:
			if h.top != h && o.which%2 == 0 {
				// Close on a nested result is documented as a no-op: the handle stays in use
				_ = h.res.Close()
				continue
			}
			top := h.top
			_ = top.res.Close()
			out := c.live[:0]
			for _, x := range c.live {
				if x.top != top {
					out = append(out, x)
				}
			}
			c.live = out
		}
	}
	for _, h := range c.live {
		if h.top == h {
			s.Yield("api")
			_ = h.res.Close()
		}
	}
	c.live = nil
}

func genOp(t *rapid.T, k int) op {
	tags := []int{1, 2, 3, 4, 5, 6, 7, 200, -3, 9}
	o := op{kind: k}
	switch k {
	case opDecode:
		o.input = rapid.IntRange(0, 7).Draw(t, "in")
	case opAccess:
		o.sel = rapid.IntRange(0, 3).Draw(t, "sel")
		o.tag = tags[rapid.IntRange(0, len(tags)-1).Draw(t, "tag")]
		o.acc = rapid.IntRange(0, len(lazysim.Accessors)-1).Draw(t, "acc")
		if c := lazysim.Compatible(o.tag); c != nil && rapid.IntRange(0, 3).Draw(t, "fit") != 0 {
			o.acc = c[rapid.IntRange(0, len(c)-1).Draw(t, "fitacc")]
		}
		o.viaFD = rapid.IntRange(0, 3).Draw(t, "viafd") == 0
	case opNested:
		o.sel = rapid.IntRange(0, 2).Draw(t, "sel")
		o.tag = 3
		if rapid.IntRange(0, 7).Draw(t, "oddtag") == 0 {
			o.tag = tags[rapid.IntRange(0, len(tags)-1).Draw(t, "tag")]
		}
		o.multi = rapid.Bool().Draw(t, "multi")
		o.which = rapid.IntRange(0, 3).Draw(t, "which")
	default:
		o.sel = rapid.IntRange(0, 3).Draw(t, "sel")
		o.which = rapid.IntRange(0, 3).Draw(t, "which")
	}
	return o
}

// genScript draws a client script as a sequence of iterations of the usage the property describes
// (decode, look at nested results, read values, close), with drawn deviations: results kept live across
// iterations, reads before nesting, extra closes.
func genScript(t *rapid.T, iters int) []op {
	var out []op
	for it := 0; it < iters; it++ {
		out = append(out, genOp(t, opDecode))
		for k, n := 0, rapid.IntRange(0, 3).Draw(t, "nnested"); k < n; k++ {
			out = append(out, genOp(t, opNested))
		}
		for k, n := 0, rapid.IntRange(0, 4).Draw(t, "nreads"); k < n; k++ {
			if rapid.IntRange(0, 7).Draw(t, "rng") == 0 {
				out = append(out, genOp(t, opRange))
			} else {
				out = append(out, genOp(t, opAccess))
			}
		}
		if rapid.IntRange(0, 3).Draw(t, "keep") != 0 {
			out = append(out, genOp(t, opClose))
		}
	}
	return out
}

func runC15(t *rapid.T, w *rep.Worker, maxClients int) {
	opts := lazysim.GenOptions(t)
	def := lazysim.GenDef(t, 0)
	if _, ok := def[3]; !ok && rapid.Bool().Draw(t, "forcenest") {
		def[3] = lazysim.GenDef(t, 1)
	}
	cfg := simpool.Config{
		Policy:        simpool.Policy(rapid.IntRange(0, int(simpool.NPolicies)-1).Draw(t, "policy")),
		DropOnPutPct:  []int{0, 0, 25}[rapid.IntRange(0, 2).Draw(t, "droppct")],
		ForcedMissPct: []int{0, 0, 20}[rapid.IntRange(0, 2).Draw(t, "misspct")],
	}
	model := simpool.New(cfg, chooser{t})
	nc := rapid.IntRange(2, maxClients).Draw(t, "nclients")
	clients := make([]*client, nc)
	corrupted := 0
	for i := range clients {
		c := &client{id: i}
		mark := uint64(i+1) * 0x0101010101010101
		ni := rapid.IntRange(1, 3).Draw(t, "ninputs")
		for j := 0; j < ni; j++ {
			b, spans := wirex.Encode(lazysim.GenMsg(t, 0, 8, mark, "msg"))
			if rapid.IntRange(0, 5).Draw(t, "corrupt") == 0 {
				// a malformed element inside a nested message: the top level still decodes
				var inner []wirex.Span
				for _, sp := range spans {
					if sp.Depth >= 1 {
						inner = append(inner, sp)
					}
				}
				if len(inner) > 0 {
					sp := inner[rapid.IntRange(0, len(inner)-1).Draw(t, "inner_which")]
					b[sp.KeyStart] = []byte{b[sp.KeyStart]&^7 | 7, 0x80, 0}[rapid.IntRange(0, 2).Draw(t, "inner_kind")]
					corrupted++
				}
			}
			if len(b) == 0 {
				b, _ = wirex.Encode([]wirex.Rec{{Tag: 1, WT: wirex.Varint, U: mark}})
			}
			c.inputs = append(c.inputs, b)
		}
		c.script = genScript(t, rapid.IntRange(1, 5).Draw(t, "iters"))
		clients[i] = c
	}
	w.Begin(fmt.Sprintf("%s def=%s pool={%s drop=%d%% miss=%d%%} clients=%d race=%v", opts, lazysim.DefString(def), cfg.Policy, cfg.DropOnPutPct, cfg.ForcedMissPct, nc, coop.RaceBuild))
	w.MixS(fmt.Sprintf("%s|%s|%v|%d", opts, lazysim.DefString(def), cfg, nc))
	for _, c := range clients {
		for _, in := range c.inputs {
			w.MixS(string(in))
		}
		w.MixS(fmt.Sprint(c.script))
	}

	sched := coop.New(nc, model)
	simpool.Current = sched
	active = sched
	rw := coop.WatchRaces()
	dec, err := lazyproto.NewDecoder(def, opts.Build()...)
	if err != nil {
		t.Fatalf("harness: NewDecoder rejected a generated definition: %v", err)
	}
	sched.Run(func(cc *coop.Client) { clients[cc.ID].run(sched, dec) },
		func(runnable []int) int { return rapid.IntRange(0, len(runnable)-1).Draw(t, "next") })
	active = nil
	simpool.Current = model

	w.StepsTot += int64(sched.Decisions)
	w.Sched(sched.Hash())
	w.Mix(sched.Hash())
	// panics inside clients
	for _, cc := range sched.Clients() {
		if cc.Panic != nil {
			if rep.IsChoicePanic(cc.Panic) {
				panic(cc.Panic)
			}
			w.Step("client %d panicked: %v", cc.ID, cc.Panic)
			w.Violate(rep.PanicSig("client", cc.Panic, cc.PanicStack), fmt.Sprint(cc.Panic))
		}
	}
	// races
	if n, txt := rw.New(); n > 0 {
		sig, ok := coop.RaceSig(txt)
		if !ok {
			t.Fatalf("HARNESS: race report without any csproto frame (harness bug):\n%s", txt)
		}
		w.Step("race detector: %d report(s)", n)
		w.Violate(sig, firstLines(txt, 60))
		w.AttachRace(firstLines(txt, 80))
	}
	// logical oracle: every observation equals the pristine one for that client's input
	model.Pristine = true
	judged := 0
	for _, c := range clients {
		for _, o := range c.obs {
			want := pristine(def, opts, c.inputs[o.input], o)
			judged++
			if want != o.got {
				w.Step("client %d %s(tag %d) on input %d path %v", c.id, o.desc, o.tag, o.input, o.path)
				w.Violate("observation-differs-from-pristine|"+[]string{"Decode", "accessor", "Nested", "Range"}[o.kind],
					fmt.Sprintf("client %d %s(tag %d) input %d path %v: shared decoder gave %s, pristine gives %s", c.id, o.desc, o.tag, o.input, o.path, o.got, want))
				break
			}
		}
	}
	model.Pristine = false
	st := model.S
	w.Faults["drop_on_put"] += int64(st.DroppedPuts)
	w.Faults["forced_miss"] += int64(st.ForcedMisses)
	w.Probes["pool_get"] += int64(st.Gets)
	w.Probes["pool_put"] += int64(st.Puts)
	w.Probes["pool_hit"] += int64(st.Hits)
	w.Probes["pool_double_put"] += int64(st.DoublePuts)
	w.Probes["context_switches"] += int64(sched.Switches)
	w.Probes["get_while_other_client_holds_object_of_same_pool"] += int64(sched.ContendedGet)
	w.Probes["judged_observations"] += int64(judged)
	w.Faults["nested_element_corrupted"] += int64(corrupted)
	for k, v := range sched.YieldKinds {
		w.Probes["yield:"+k] += int64(v)
	}
	if sched.ContendedGet > 0 {
		w.State(fmt.Sprintf("%s|%s|contended", opts, cfg.Policy))
	} else {
		w.State(fmt.Sprintf("%s|%s|uncontended", opts, cfg.Policy))
	}
	if sched.Switches > 0 && st.Hits > 0 && judged > 0 {
		// render a compact sample
		if w.WantDetail() {
			for _, c := range clients {
				w.Note("client %d: %d inputs, script %s", c.id, len(c.inputs), renderScript(c.script))
			}
		}
		w.Note("schedule: %d decisions, %d switches, hash %x", sched.Decisions, sched.Switches, sched.Hash())
		if w.WantDetail() {
			w.Note("schedule trace: %s", sched.TraceString())
		}
		w.EndNontrivial()
	}
	if sig := w.Pending(); sig != "" {
		t.Fatalf("%s", sig)
	}
}

func renderScript(ops []op) string {
	var sb strings.Builder
	for _, o := range ops {
		switch o.kind {
		case opDecode:
			fmt.Fprintf(&sb, "Decode(in%d) ", o.input)
		case opAccess:
			fmt.Fprintf(&sb, "%s(h%d,tag %d) ", lazysim.Accessors[o.acc].Name, o.sel, o.tag)
		case opNested:
			fmt.Fprintf(&sb, "Nested(h%d,tag %d,multi=%v) ", o.sel, o.tag, o.multi)
		case opRange:
			fmt.Fprintf(&sb, "Range(h%d) ", o.sel)
		case opClose:
			fmt.Fprintf(&sb, "Close(h%d) ", o.sel)
		}
	}
	return sb.String()
}

func firstLines(s string, n int) string {
	k := 0
	for i := range s {
		if s[i] == '\n' {
			k++
			if k == n {
				return s[:i]
			}
		}
	}
	return s
}

func pristine(def lazyproto.Def, opts lazysim.Options, input []byte, o obs) (out string) {
	defer func() {
		if r := recover(); r != nil {
			if rep.IsChoicePanic(r) {
				panic(r)
			}
			out = fmt.Sprintf("pristine panicked: %v", r)
		}
	}()
	pd, err := lazyproto.NewDecoder(def, opts.Build()...)
	if err != nil {
		return "pristine NewDecoder: " + err.Error()
	}
	pr, err := pd.Decode(input)
	if o.kind == opDecode {
		return fmt.Sprintf("%s nil=%v", lazysim.ErrClass(err), pr == nil)
	}
	if err != nil || pr == nil {
		return "pristine decode failed"
	}
	defer pr.Close()
	r, nav := lazysim.Navigate(pr, o.path)
	if r == nil {
		return "pristine navigation: " + nav
	}
	switch o.kind {
	case opAccess:
		got, _ := lazysim.Observe(r, lazysim.Accessors[o.acc], o.tag, o.viaFD)
		return got.String()
	case opNested:
		n := 0
		if o.multi {
			var rs []*lazyproto.DecodeResult
			rs, err = r.NestedResults(o.tag)
			n = len(rs)
		} else {
			var x *lazyproto.DecodeResult
			x, err = r.NestedResult(o.tag)
			if x != nil {
				n = 1
			}
		}
		return fmt.Sprintf("%s n=%d", lazysim.ErrClass(err), n)
	case opRange:
		return lazysim.RangeOutcome(r)
	}
	return "?"
}

func maxClients() int {
	if v := rep.ParamInt("max_clients", 0); v > 0 {
		return v
	}
	return 6
}

func TestC15Coop(t *testing.T) {
	w := rep.NewWorker(t, "C15", "coop")
	defer w.Finish()
	mc := maxClients()
	rapid.Check(t, func(rt *rapid.T) { runC15(rt, w, mc) })
}
