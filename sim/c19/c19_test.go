// Package c19 checks C19: nested-message bridging in the hand-written codec is exact, also when the
// nested collaborator fails.
//
// One Encoder over an exactly sized buffer; a drawn sequence of scalar fields and nested fields of five
// flavours (regenerated fast-marshal type -> MarshalTo; stub with Size+Marshal only; plain gogo; legacy
// golang/protobuf v1; plain protobuf-go v2 incl. well-known types), with injected failures of the stub
// collaborators. After every step the written prefix must equal the model's bytes and everything beyond
// the model cursor must still hold the fill pattern. The result is then read back with DecodeNested into
// matching types or failing stub Unmarshalers, optionally through a truncating / length-inflating medium.
package c19

import (
	"bytes"
	"errors"
	"fmt"
	"runtime/debug"
	"testing"

	"github.com/CrowdStrike/csproto"
	gogodesc "github.com/gogo/protobuf/protoc-gen-gogo/descriptor"
	gogotypes "github.com/gogo/protobuf/types"
	promv1 "github.com/prometheus/client_model/go"
	"google.golang.org/protobuf/encoding/protowire"
	"google.golang.org/protobuf/proto"
	"google.golang.org/protobuf/types/descriptorpb"
	"google.golang.org/protobuf/types/known/durationpb"
	"google.golang.org/protobuf/types/known/structpb"
	"google.golang.org/protobuf/types/known/timestamppb"
	"google.golang.org/protobuf/types/known/wrapperspb"
	"pgregory.net/rapid"

	"verifsim/corpus"
	"verifsim/rep"
)

const fill = 0xEE

var errInjected = errors.New("injected collaborator failure")

// stubTo marshals itself into a supplied buffer (MarshalerTo); it can be told to fail.
type stubTo struct {
	payload []byte
	fail    bool
}

func (s *stubTo) Size() int { return len(s.payload) }
func (s *stubTo) MarshalTo(dest []byte) error {
	if s.fail {
		return errInjected
	}
	copy(dest, s.payload)
	return nil
}
func (s *stubTo) Marshal() ([]byte, error) { return append([]byte{}, s.payload...), nil }

// stubM has only Size and Marshal.
type stubM struct {
	payload []byte
	fail    bool
}

func (s *stubM) Size() int { return len(s.payload) }
func (s *stubM) Marshal() ([]byte, error) {
	if s.fail {
		return nil, errInjected
	}
	return append([]byte{}, s.payload...), nil
}

// stubU is an Unmarshaler that records what it was given and can fail.
type stubU struct {
	called bool
	got    []byte
	fail   bool
}

func (s *stubU) Unmarshal(b []byte) error {
	s.called = true
	s.got = append([]byte{}, b...)
	if s.fail {
		return errInjected
	}
	return nil
}

type flavour struct {
	name string
	new  func(t *rapid.T) any // drawn value
	zero func() any           // fresh instance to decode into
	eq   func(a, b any) bool
}

func populate(t *rapid.T, m any) any {
	corpus.Populate(t, corpus.Wrap(m), 1)
	return m
}

func digestEq(a, b any) bool { return corpus.Digest(a) == corpus.Digest(b) }

var plainFlavours = []flavour{
	{"google-v2 timestamppb.Timestamp", func(t *rapid.T) any { return populate(t, &timestamppb.Timestamp{}) }, func() any { return &timestamppb.Timestamp{} }, digestEq},
	{"google-v2 durationpb.Duration", func(t *rapid.T) any { return populate(t, &durationpb.Duration{}) }, func() any { return &durationpb.Duration{} }, digestEq},
	{"google-v2 structpb.Value", func(t *rapid.T) any { return populate(t, &structpb.Value{}) }, func() any { return &structpb.Value{} }, digestEq},
	{"google-v2 wrapperspb.StringValue", func(t *rapid.T) any { return populate(t, &wrapperspb.StringValue{}) }, func() any { return &wrapperspb.StringValue{} }, digestEq},
	{"gogo types.Timestamp (Size+Marshal)", func(t *rapid.T) any { return populate(t, &gogotypes.Timestamp{}) }, func() any { return &gogotypes.Timestamp{} }, digestEq},
	{"gogo plain descriptor.EnumValueDescriptorProto", func(t *rapid.T) any { return populate(t, &gogodesc.EnumValueDescriptorProto{}) }, func() any { return &gogodesc.EnumValueDescriptorProto{} }, digestEq},
	{"legacy golang/protobuf v1 (prometheus LabelPair)", func(t *rapid.T) any { return populate(t, &promv1.LabelPair{}) }, func() any { return &promv1.LabelPair{} }, digestEq},
	// values whose marshal fails: proto2 messages of the plain runtimes with their required fields unset, and a value no runtime knows
	{"google-v2 descriptorpb.UninterpretedOption_NamePart (required fields)", func(t *rapid.T) any {
		m := &descriptorpb.UninterpretedOption_NamePart{}
		if rapid.Bool().Draw(t, "complete") {
			m.NamePart, m.IsExtension = proto.String("n"), proto.Bool(true)
		} else if rapid.Bool().Draw(t, "half") {
			m.NamePart = proto.String("n")
		}
		return m
	}, func() any { return &descriptorpb.UninterpretedOption_NamePart{} }, digestEq},
	{"gogo plain descriptor.UninterpretedOption_NamePart (required fields)", func(t *rapid.T) any {
		m := &gogodesc.UninterpretedOption_NamePart{}
		if rapid.Bool().Draw(t, "complete") {
			m.NamePart, m.IsExtension = proto.String("n"), proto.Bool(true)
		} else if rapid.Bool().Draw(t, "half") {
			m.NamePart = proto.String("n")
		}
		return m
	}, func() any { return &gogodesc.UninterpretedOption_NamePart{} }, digestEq},
	{"a value no runtime knows (*struct{})", func(t *rapid.T) any { return &struct{}{} }, nil, digestEq},
	{"legacy golang/protobuf v1 (prometheus Gauge)", func(t *rapid.T) any { return populate(t, &promv1.Gauge{}) }, func() any { return &promv1.Gauge{} }, digestEq},
}

type field struct {
	tag     int
	kind    string // "u64", "str", "nested"
	u       uint64
	s       string
	msg     any
	flav    string
	zero    func() any
	eq      func(a, b any) bool
	payload []byte // csproto.Marshal(msg) computed by the model before encoding
	isStub  bool
	fails   bool
	// csproto.Marshal of the (non-stub) value returns an error: EncodeNested must return one too
	expectErr error
	desc    func() any
}

func safeMarshal(m any) (b []byte, err error, panicked any) {
	defer func() {
		if p := recover(); p != nil {
			if rep.IsChoicePanic(p) {
				panic(p)
			}
			panicked = p
		}
	}()
	b, err = csproto.Marshal(m)
	return
}

// sizeAndMarshalToAgree reports whether a MarshalTo message fills exactly Size() bytes: no error or panic with an
// exactly sized buffer, and with a longer one nothing written beyond Size() and the last announced byte written.
// Messages without MarshalTo trivially agree.
func sizeAndMarshalToAgree(m any) (ok bool) {
	mt, is := m.(interface {
		Size() int
		MarshalTo([]byte) error
	})
	if !is {
		return true
	}
	defer func() {
		if p := recover(); p != nil {
			if rep.IsChoicePanic(p) {
				panic(p)
			}
			ok = false
		}
	}()
	sz := mt.Size()
	exact := make([]byte, sz)
	if mt.MarshalTo(exact) != nil {
		return false
	}
	long := make([]byte, sz+32)
	for i := range long {
		long[i] = 0xEE
	}
	if mt.MarshalTo(long) != nil {
		return false
	}
	for _, c := range long[sz:] {
		if c != 0xEE {
			return false
		}
	}
	if mt.Size() != sz {
		return false
	}
	return true
}

var errOwnMarshalTo = errors.New("the message's own MarshalTo fails")

// safeSize is csproto.Size of m, 0 if that panics.
func safeSize(m any) (n int) {
	defer func() {
		if p := recover(); p != nil {
			if rep.IsChoicePanic(p) {
				panic(p)
			}
			n = 0
		}
	}()
	if n = csproto.Size(m); n < 0 {
		n = 0
	}
	return n
}

// ownMarshalToFails reports whether the message's own MarshalTo, given a buffer of its own Size(), fails or panics.
func ownMarshalToFails(m any) (fails bool) {
	mt, ok := m.(interface {
		Size() int
		MarshalTo([]byte) error
	})
	if !ok {
		return false
	}
	defer func() {
		if p := recover(); p != nil {
			if rep.IsChoicePanic(p) {
				panic(p)
			}
			fails = true
		}
	}()
	return mt.MarshalTo(make([]byte, mt.Size())) != nil
}

// directUnmarshalOK decodes payload into ref with csproto.Unmarshal, outside the nested bridge.
func directUnmarshalOK(payload []byte, ref any) (ok bool) {
	defer func() {
		if p := recover(); p != nil {
			if rep.IsChoicePanic(p) {
				panic(p)
			}
			ok = false
		}
	}()
	return csproto.Unmarshal(payload, ref) == nil
}

func runC19(t *rapid.T, w *rep.Worker) {
	nf := rapid.IntRange(1, 6).Draw(t, "nfields")
	var fields []field
	injectAt := -1
	for i := 0; i < nf; i++ {
		f := field{tag: []int{1, 2, 15, 16, 100, 2047, 2048, 1 << 20}[rapid.IntRange(0, 7).Draw(t, "tag")]}
		switch rapid.IntRange(0, 7).Draw(t, "fkind") {
		case 0:
			f.kind, f.u = "u64", rapid.Uint64().Draw(t, "u")
		case 1:
			f.kind, f.s = "str", []string{"", "a", "hello world"}[rapid.IntRange(0, 2).Draw(t, "s")]
		case 2: // fast-marshal type from the regenerated corpus
			typ := corpus.All[rapid.IntRange(0, len(corpus.All)-1).Draw(t, "type")]
			m := typ.New()
			if rapid.IntRange(0, 4).Draw(t, "emptymsg") != 0 {
				corpus.Populate(t, corpus.Wrap(m), 1)
			}
			f.kind, f.msg, f.flav, f.zero, f.eq = "nested", m, "fast-marshal "+typ.String(), typ.New, digestEq
		case 3:
			p := make([]byte, rapid.IntRange(0, 200).Draw(t, "stublen"))
			for j := range p {
				p[j] = byte(j*7 + 1)
			}
			fail := injectAt < 0 && rapid.IntRange(0, 3).Draw(t, "failto") == 0
			if fail {
				injectAt = i
			}
			f.kind, f.msg, f.flav, f.isStub, f.fails = "nested", &stubTo{payload: p, fail: fail}, "stub MarshalTo", true, fail
		case 4:
			p := make([]byte, rapid.IntRange(0, 200).Draw(t, "stublen"))
			for j := range p {
				p[j] = byte(j*11 + 3)
			}
			fail := injectAt < 0 && rapid.IntRange(0, 3).Draw(t, "failm") == 0
			if fail {
				injectAt = i
			}
			f.kind, f.msg, f.flav, f.isStub, f.fails = "nested", &stubM{payload: p, fail: fail}, "stub Size+Marshal only", true, fail
		default:
			fl := plainFlavours[rapid.IntRange(0, len(plainFlavours)-1).Draw(t, "plain")]
			f.kind, f.msg, f.flav, f.zero, f.eq = "nested", fl.new(t), fl.name, fl.zero, fl.eq
		}
		fields = append(fields, f)
	}
	w.Begin(fmt.Sprintf("%d fields", nf))
	// model: expected bytes
	var exp []byte
	var cuts []int // model cursor after each field
	spare := 0     // room for one trailing field that is expected to fail
	usable := len(fields)
	for i := range fields {
		f := &fields[i]
		switch f.kind {
		case "u64":
			exp = protowire.AppendTag(exp, protowire.Number(f.tag), protowire.VarintType)
			exp = protowire.AppendVarint(exp, f.u)
		case "str":
			exp = protowire.AppendTag(exp, protowire.Number(f.tag), protowire.BytesType)
			exp = protowire.AppendString(exp, f.s)
		case "nested":
			var p []byte
			if st, ok := f.msg.(*stubTo); ok {
				p = st.payload
			} else if st, ok := f.msg.(*stubM); ok {
				p = st.payload
			} else {
				b, err, pan := safeMarshal(f.msg)
				if pan != nil {
					// csproto.Marshal itself panics for these contents (C04-class, pure input): not a nested-bridging matter
					w.Probe("unjudged_marshal_panic_of_nested_value")
					usable = i
				} else if err != nil {
					// csproto.Marshal returns an error for this value (unset required fields, a type no runtime knows):
					// "an error from the nested message propagates to the caller". The field is encoded into spare room
					// after the judged fields and must fail; nothing after it is judged.
					f.expectErr = err
					spare = 64 + safeSize(f.msg)
					usable = i + 1
				}
				if f.expectErr == nil && usable == len(fields) && ownMarshalToFails(f.msg) {
					// the message marshals itself into a supplied buffer and that fails (a generated proto2 message with
					// an unset required field whose Size() is 0, for which csproto.Marshal wrongly succeeds): EncodeNested
					// takes the MarshalTo path, so this error is the one that must reach the caller
					f.expectErr = errOwnMarshalTo
					spare = 64 + safeSize(f.msg)
					usable = i + 1
				}
				if f.expectErr == nil && usable == len(fields) && !sizeAndMarshalToAgree(f.msg) {
					// the message's own MarshalTo writes more or fewer bytes than its own Size() announces, or fails
					// where Marshal does not (C04/C17-class, pure input): EncodeNested has no exact answer for it
					w.Probe("unjudged_nested_value_whose_size_and_marshalto_disagree")
					usable = i
				}
				p = b
			}
			f.payload = p
			if f.expectErr == nil {
				exp = protowire.AppendTag(exp, protowire.Number(f.tag), protowire.BytesType)
				exp = protowire.AppendBytes(exp, p)
			}
		}
		if usable < len(fields) || f.expectErr != nil {
			break
		}
		cuts = append(cuts, len(exp))
	}
	fields = fields[:usable]
	if injectAt >= usable {
		injectAt = -1
	}
	buf := make([]byte, len(exp)+spare)
	for i := range buf {
		buf[i] = fill
	}
	enc := csproto.NewEncoder(buf)
	encoded := 0
	for i, f := range fields {
		var err error
		var pan any
		var stack []byte
		func() {
			defer func() {
				if p := recover(); p != nil {
					if rep.IsChoicePanic(p) {
						panic(p)
					}
					pan, stack = p, debug.Stack()
				}
			}()
			switch f.kind {
			case "u64":
				enc.EncodeUInt64(f.tag, f.u)
			case "str":
				enc.EncodeString(f.tag, f.s)
			case "nested":
				err = enc.EncodeNested(f.tag, f.msg)
			}
		}()
		w.Step("field %d: tag %d %s %s (%d payload bytes) -> err=%v", i, f.tag, f.kind, f.flav, len(f.payload), err)
		w.MixS(f.flav)
		if pan != nil {
			w.Violate(rep.PanicSig("EncodeNested|"+flavClass(f), pan, stack), fmt.Sprintf("%v while encoding field %d (%s) into an exactly sized buffer", pan, i, f.flav))
			break
		}
		if f.expectErr != nil {
			w.Fault("nested_value_whose_marshal_fails")
			if err == nil {
				w.Violate("nested-marshal-error-lost|"+flavClass(f), fmt.Sprintf("csproto.Marshal(%s) fails with %v, EncodeNested returned nil", f.flav, f.expectErr))
			}
			break
		}
		if f.fails {
			w.Fault("nested_marshal_error")
			if !errors.Is(err, errInjected) {
				w.Violate("injected-marshal-error-lost|"+flavClass(f), fmt.Sprintf("%s failed with %v, EncodeNested returned %v", f.flav, errInjected, err))
			}
			break // the encoder's state after a failed nested field is not specified
		}
		if err != nil {
			if f.kind == "nested" && !f.isStub && ownMarshalToFails(f.msg) {
				// the message's own MarshalTo fails where csproto.Marshal (which short-circuits on Size()==0) does not:
				// a required-field matter of the generated code (C17-class, pure input); the bridge propagated the error
				w.Probe("nested_own_marshalto_fails_where_marshal_succeeds(C17-class)")
				break
			}
			w.Violate("encode-nested-error|"+flavClass(f), fmt.Sprintf("EncodeNested(%s) returned %v although csproto.Marshal of the same message succeeds", f.flav, err))
			break
		}
		cur := cuts[i]
		prev := 0
		if i > 0 {
			prev = cuts[i-1]
		}
		okBytes := bytes.Equal(buf[prev:cur], exp[prev:cur])
		if !okBytes && f.kind == "nested" && !f.isStub {
			// map-entry order may differ between two marshals of the same message
			_, _, n1 := protowire.ConsumeTag(exp[prev:cur])
			_, n2 := protowire.ConsumeVarint(exp[prev+n1 : cur])
			okBytes = bytes.Equal(buf[prev:prev+n1+n2], exp[prev:prev+n1+n2]) &&
				corpus.EqualModuloMapOrder(corpus.Wrap(f.msg).Descriptor(), buf[prev+n1+n2:cur], exp[prev+n1+n2:cur])
		}
		if !okBytes {
			w.Violate("encoded-bytes-differ|"+flavClass(f), fmt.Sprintf("field %d (%s): wrote %x, expected key+len+csproto.Marshal = %x", i, f.flav, clip(buf[prev:cur]), clip(exp[prev:cur])))
			break
		}
		rest := buf[cur:]
		clean := true
		for _, c := range rest {
			if c != fill {
				clean = false
				break
			}
		}
		if !clean {
			w.Violate("wrote-beyond-cursor|"+flavClass(f), fmt.Sprintf("field %d (%s): bytes beyond the model cursor %d were modified: %x", i, f.flav, cur, clip(rest)))
			break
		}
		encoded++
	}
	if sig := w.Pending(); sig != "" {
		t.Fatalf("%s", sig)
	}
	// ---- read back ----
	if encoded == len(fields) && encoded > 0 {
		readBack(t, w, fields, exp, cuts)
	}
	w.Probes["fields_encoded"] += int64(encoded)
	if encoded > 0 {
		w.EndNontrivial()
	}
	if sig := w.Pending(); sig != "" {
		t.Fatalf("%s", sig)
	}
}

func flavClass(f field) string {
	switch {
	case f.kind != "nested":
		return f.kind
	case len(f.flav) >= 12 && f.flav[:12] == "fast-marshal":
		return "fast-marshal"
	}
	return f.flav
}

func clip(b []byte) []byte {
	if len(b) > 40 {
		return b[:40]
	}
	return b
}

func readBack(t *rapid.T, w *rep.Worker, fields []field, exp []byte, cuts []int) {
	data := append([]byte{}, exp...)
	// medium: truncate inside a nested payload, or inflate a nested length (last nested field only, so the framing before it stays valid)
	fault := rapid.IntRange(0, 6).Draw(t, "readfault")
	faultField := -1
	for i := len(fields) - 1; i >= 0; i-- {
		if fields[i].kind == "nested" {
			faultField = i
			break
		}
	}
	truncated := false
	if faultField >= 0 && fault == 0 && len(fields[faultField].payload) > 0 {
		cut := cuts[faultField] - 1 - rapid.IntRange(0, len(fields[faultField].payload)-1).Draw(t, "cut")
		data = data[:cut]
		truncated = true
		w.Step("medium: truncate at %d (inside the payload of field %d)", cut, faultField)
	}
	if faultField >= 0 && fault == 1 {
		// inflate the declared length of the nested field: one more than available, just under 2 GiB, and values
		// whose low 32 bits equal the true length (a reader that truncates the length to 32 bits would accept them)
		f := fields[faultField]
		start := 0
		if faultField > 0 {
			start = cuts[faultField-1]
		}
		_, _, kn := protowire.ConsumeTag(data[start:])
		_, ln := protowire.ConsumeVarint(data[start+kn:])
		tl := uint64(len(f.payload))
		nl := []uint64{tl + uint64(len(data)), 1<<31 - 1, 1<<32 + tl, 1<<33 + tl, 1<<34 | tl, 1<<35 + tl, 1<<63 + tl}[rapid.IntRange(0, 6).Draw(t, "inflateto")]
		nd := append([]byte{}, data[:start+kn]...)
		nd = protowire.AppendVarint(nd, nl)
		data = append(nd, data[start+kn+ln:]...)
		truncated = true // fields after the damaged one are not judged
		w.Step("medium: declared length of field %d set to %d (payload is %d bytes)", faultField, nl, tl)
	}
	if faultField >= 0 && fault == 6 {
		// not damage, a legal variation: another writer may spell the length prefix with more bytes than needed
		// (padded varint, as writers that back-patch a fixed-width prefix do). Everything stays valid and judged.
		start := 0
		if faultField > 0 {
			start = cuts[faultField-1]
		}
		_, _, kn := protowire.ConsumeTag(data[start:])
		l, ln := protowire.ConsumeVarint(data[start+kn:])
		pad := rapid.IntRange(1, 3).Draw(t, "prefixpad")
		nd := append([]byte{}, data[:start+kn]...)
		v := l
		for k := 0; k < ln+pad-1; k++ {
			nd = append(nd, byte(v&0x7f)|0x80)
			v >>= 7
		}
		nd = append(nd, byte(v&0x7f))
		data = append(nd, data[start+kn+ln:]...)
		w.Step("medium: length prefix of field %d re-spelled with %d padding byte(s)", faultField, pad)
		w.Fault("non_minimal_length_prefix")
	}
	failUnm := rapid.IntRange(0, 3).Draw(t, "failunm") == 0
	dec := csproto.NewDecoder(data)
	if rapid.Bool().Draw(t, "fastdec") {
		dec.SetMode(csproto.DecoderModeFast)
	}
	for i, f := range fields {
		if !dec.More() {
			break
		}
		tag, wt, err := dec.DecodeTag()
		if err != nil {
			if truncated {
				return
			}
			w.Violate("readback-tag-error", fmt.Sprintf("DecodeTag before field %d: %v", i, err))
			return
		}
		if tag != f.tag {
			w.Violate("readback-tag-mismatch", fmt.Sprintf("field %d: tag %d, expected %d", i, tag, f.tag))
			return
		}
		switch f.kind {
		case "u64":
			if _, err := dec.DecodeUInt64(); err != nil && !truncated {
				w.Violate("readback-scalar-error", err.Error())
				return
			}
		case "str":
			if _, err := dec.DecodeString(); err != nil && !truncated {
				w.Violate("readback-scalar-error", err.Error())
				return
			}
		case "nested":
			_ = wt
			before := dec.Offset()
			l, n := protowire.ConsumeVarint(data[before:])
			fits := n > 0 && l <= uint64(len(data)-before-n)
			useStub := f.isStub || f.zero == nil || rapid.IntRange(0, 3).Draw(t, "intostub") == 0
			var target any
			var st *stubU
			if useStub {
				st = &stubU{fail: failUnm}
				target = st
			} else {
				target = f.zero()
				if rapid.IntRange(0, 2).Draw(t, "dirtytarget") == 0 {
					// a target that was used before: whichever Unmarshal path the bridge takes must replace its contents
					func() {
						defer func() {
							if p := recover(); p != nil && rep.IsChoicePanic(p) {
								panic(p)
							}
						}()
						corpus.Populate(t, corpus.Wrap(target), 1)
					}()
					w.Fault("decode_into_used_target")
				}
			}
			var derr error
			var pan any
			var stack []byte
			func() {
				defer func() {
					if p := recover(); p != nil {
						if rep.IsChoicePanic(p) {
							panic(p)
						}
						pan, stack = p, debug.Stack()
					}
				}()
				derr = dec.DecodeNested(target)
			}()
			w.Step("DecodeNested field %d into %T: err=%v cursor %d -> %d", i, target, derr, before, dec.Offset())
			if pan != nil {
				if !useStub {
					// generated/runtime Unmarshal panicking on these bytes is C08's matter; the bridge is judged with stubs
					w.Probe("unjudged_unmarshal_panic_of_nested_type")
					return
				}
				w.Violate(rep.PanicSig("DecodeNested", pan, stack), fmt.Sprint(pan))
				return
			}
			if !fits {
				w.Fault("declared_length_beyond_buffer")
				if derr == nil {
					w.Violate("decodenested-accepted-overlong", fmt.Sprintf("field %d: declared length %d with %d bytes left, no error", i, l, len(data)-before-n))
				}
				if st != nil && st.called {
					w.Violate("decodenested-invoked-nested-decoder-on-overlong", fmt.Sprintf("field %d: declared length %d with %d bytes left", i, l, len(data)-before-n))
				}
				return
			}
			if st != nil && st.fail {
				w.Fault("nested_unmarshal_error")
				if !errors.Is(derr, errInjected) {
					w.Violate("injected-unmarshal-error-lost", fmt.Sprintf("stub failed with %v, DecodeNested returned %v", errInjected, derr))
				}
				return
			}
			if derr != nil {
				if !useStub {
					w.Probe("unjudged_unmarshal_error_of_nested_type")
					return
				}
				w.Violate("decodenested-error", fmt.Sprintf("field %d: %v", i, derr))
				return
			}
			if dec.Offset() != before+n+int(l) {
				w.Violate("decodenested-cursor", fmt.Sprintf("field %d: cursor %d, expected %d (prefix %d + declared length %d)", i, dec.Offset(), before+n+int(l), n, l))
				return
			}
			if st != nil {
				if !bytes.Equal(st.got, f.payload) {
					w.Violate("decodenested-payload", fmt.Sprintf("field %d: nested decoder got %x, payload is %x", i, clip(st.got), clip(f.payload)))
					return
				}
			} else if !f.eq(target, f.msg) {
				if ref := f.zero(); directUnmarshalOK(f.payload, ref) && f.eq(target, ref) {
					// csproto.Unmarshal of the payload alone gives the same message: the payload itself does not
					// round-trip (generated Marshal emitting an unset field, C05-class, pure input), the bridge is exact
					w.Probe("roundtrip_differs_from_original_but_equals_direct_unmarshal(C05-class)")
					return
				}
				w.Violate("decodenested-message-differs|"+flavClass(f), fmt.Sprintf("field %d (%s): decoded %.200s, original %.200s", i, f.flav, corpus.Digest(target), corpus.Digest(f.msg)))
				return
			}
		}
	}
}

func TestC19Hist(t *testing.T) {
	w := rep.NewWorker(t, "C19", "hist")
	defer w.Finish()
	rapid.Check(t, func(rt *rapid.T) { runC19(rt, w) })
}
