// Package c11 checks C11: the runtime-agnostic API is a transparent dispatcher and a type's runtime
// classification is correct and stable under concurrent first use.
//
// 2..N clients (goroutines under the cooperative scheduler, race detector on) run drawn scripts over
// MsgType, Marshal, Unmarshal, Size, Clone, Equal, Reset, MarshalText and the gRPC codec on values of a
// few types, so that first classifications collide; the process-wide type cache is emptied before every
// run and there is a scheduling point before each of its sync.Map accesses.
package c11

import (
	"bytes"
	"errors"
	"fmt"
	"google.golang.org/protobuf/encoding/protowire"
	"google.golang.org/protobuf/types/dynamicpb"
	"reflect"
	"runtime/debug"
	"testing"

	"github.com/CrowdStrike/csproto"
	gogoproto "github.com/gogo/protobuf/proto"
	gogodesc "github.com/gogo/protobuf/protoc-gen-gogo/descriptor"
	gogotypes "github.com/gogo/protobuf/types"
	golangproto "github.com/golang/protobuf/proto" //nolint
	promv1 "github.com/prometheus/client_model/go"
	"google.golang.org/protobuf/encoding/prototext"
	"google.golang.org/protobuf/proto"
	"google.golang.org/protobuf/runtime/protoimpl"
	"google.golang.org/protobuf/types/known/durationpb"
	"google.golang.org/protobuf/types/known/structpb"
	"google.golang.org/protobuf/types/known/timestamppb"
	"pgregory.net/rapid"

	"verifsim/coop"
	"verifsim/corpus"
	"verifsim/rep"
)

var active *coop.Sched

func init() {
	csproto.VerifYield = func(where string) {
		if s := active; s != nil {
			s.Yield(where)
		}
	}
	// scheduling points inside the protobuf-go runtime (before its size-cache atomics)
	protoimpl.VerifSetYield(func(where string) {
		if s := active; s != nil {
			s.Yield(where)
		}
	})
}

type kind struct {
	name  string
	class csproto.MessageType
	fast  bool // has generated fast-marshal methods
	new   func() any
}

type notMsg struct{ A int }

var kinds = buildKinds()

func buildKinds() []kind {
	var ks []kind
	for _, ty := range corpus.All {
		cl := csproto.MessageTypeGoogle
		if ty.Runtime == "gogo" {
			cl = csproto.MessageTypeGogo
		}
		ks = append(ks, kind{name: "fast " + ty.String(), class: cl, fast: true, new: ty.New})
	}
	ks = append(ks,
		kind{"plain google-v2 timestamppb.Timestamp", csproto.MessageTypeGoogle, false, func() any { return &timestamppb.Timestamp{} }},
		kind{"plain google-v2 durationpb.Duration", csproto.MessageTypeGoogle, false, func() any { return &durationpb.Duration{} }},
		kind{"plain google-v2 structpb.Struct", csproto.MessageTypeGoogle, false, func() any { return &structpb.Struct{} }},
		kind{"plain gogo types.Timestamp", csproto.MessageTypeGogo, false, func() any { return &gogotypes.Timestamp{} }},
		kind{"plain gogo descriptor.EnumValueDescriptorProto", csproto.MessageTypeGogo, false, func() any { return &gogodesc.EnumValueDescriptorProto{} }},
		kind{"plain gogo descriptor.FieldDescriptorProto", csproto.MessageTypeGogo, false, func() any { return &gogodesc.FieldDescriptorProto{} }},
		kind{"plain gogo descriptor.UninterpretedOption_NamePart (required fields)", csproto.MessageTypeGogo, false, func() any { return &gogodesc.UninterpretedOption_NamePart{} }},
		kind{"plain gogo descriptor.UninterpretedOption", csproto.MessageTypeGogo, false, func() any { return &gogodesc.UninterpretedOption{} }},
		kind{"legacy golang/protobuf v1 prometheus.LabelPair", csproto.MessageTypeGoogleV1, false, func() any { return &promv1.LabelPair{} }},
		kind{"legacy golang/protobuf v1 prometheus.Gauge", csproto.MessageTypeGoogleV1, false, func() any { return &promv1.Gauge{} }},
		kind{"legacy golang/protobuf v1 prometheus.Metric", csproto.MessageTypeGoogleV1, false, func() any { return &promv1.Metric{} }},
	)
	return ks
}

// unsupported values
var unsupported = []struct {
	name string
	v    any
}{
	{"nil", nil},
	{"struct value", notMsg{1}},
	{"pointer to non-message", &notMsg{2}},
	{"error value", errors.New("x")},
	{"int", 7},
	{"nil *notMsg", (*notMsg)(nil)},
	// the struct behind one of the run's message types, passed by value: the methods are on the pointer, so this
	// is not a message - and what is learnt about it must not be applied to the pointer type, or vice versa
	{bareStruct, nil},
}

const bareStruct = "bare struct value of a message type"

const (
	oMsgType = iota
	oMarshal
	oUnmarshal
	oSize
	oClone
	oEqualSame
	oEqualCross
	oReset
	oText
	oCodec
	oUnsupported
	nOps
)

var opName = []string{"MsgType", "Marshal", "Unmarshal", "Size", "Clone", "Equal(same runtime)", "Equal(cross runtime)", "Reset", "MarshalText", "GrpcCodec", "unsupported-value"}

type op struct {
	code int
	val  int // index into the run's values
	val2 int
	uns  int
}

type obsv struct {
	op   op
	got  string
	want string
	pan  any
	stk  []byte

	unjudged bool
}

type value struct {
	k kind
	m any
}

func rtMarshal(v value) ([]byte, error) {
	switch v.k.class {
	case csproto.MessageTypeGogo:
		return gogoproto.Marshal(v.m.(gogoproto.Message))
	case csproto.MessageTypeGoogleV1:
		return golangproto.Marshal(v.m.(golangproto.Message))
	}
	return proto.Marshal(v.m.(proto.Message))
}

func rtSize(v value) int {
	switch v.k.class {
	case csproto.MessageTypeGogo:
		return gogoproto.Size(v.m.(gogoproto.Message))
	case csproto.MessageTypeGoogleV1:
		return golangproto.Size(v.m.(golangproto.Message))
	}
	return proto.Size(v.m.(proto.Message))
}

func rtText(v value) string {
	switch v.k.class {
	case csproto.MessageTypeGogo:
		return gogoproto.MarshalTextString(v.m.(gogoproto.Message))
	case csproto.MessageTypeGoogleV1:
		return golangproto.MarshalTextString(v.m.(golangproto.Message))
	}
	return prototext.Format(v.m.(proto.Message))
}

func rtClone(v value) any {
	switch v.k.class {
	case csproto.MessageTypeGogo:
		return gogoproto.Clone(v.m.(gogoproto.Message))
	case csproto.MessageTypeGoogleV1:
		return golangproto.Clone(v.m.(golangproto.Message))
	}
	return proto.Clone(v.m.(proto.Message))
}

func rtEqual(a, b value) bool {
	switch a.k.class {
	case csproto.MessageTypeGogo:
		return gogoproto.Equal(a.m.(gogoproto.Message), b.m.(gogoproto.Message))
	case csproto.MessageTypeGoogleV1:
		return golangproto.Equal(a.m.(golangproto.Message), b.m.(golangproto.Message))
	}
	return proto.Equal(a.m.(proto.Message), b.m.(proto.Message))
}

// exec runs one operation of a client script. Everything is computed from private copies so clients
// share nothing but csproto's own process-wide state.
// own runs f (the type's own generated method, the oracle for dispatch transparency) and reports a panic.
func own(f func()) (panicked bool) {
	defer func() {
		if recover() != nil {
			panicked = true
		}
	}()
	f()
	return false
}

func rtUnmarshal(k kind, b []byte, dst any) error {
	switch k.class {
	case csproto.MessageTypeGogo:
		return gogoproto.Unmarshal(b, dst.(gogoproto.Message))
	case csproto.MessageTypeGoogleV1:
		return golangproto.Unmarshal(b, dst.(golangproto.Message))
	}
	return proto.Unmarshal(b, dst.(proto.Message))
}

func exec(o op, vals []value) (res obsv) {
	res.op = o
	ownPanics := false
	defer func() {
		if p := recover(); p != nil {
			if ownPanics {
				// the type's own generated method panics for these contents as well: a pure-input defect of the
				// generated code (C04-class), not a dispatcher matter
				res.got, res.want, res.unjudged = "", "", true
				return
			}
			res.pan, res.stk = p, debug.Stack()
		}
	}()
	if o.code == oUnsupported {
		u := unsupported[o.uns].v
		if unsupported[o.uns].name == bareStruct {
			// (of a private copy: the shared value may be in use by another client)
			if rv := reflect.ValueOf(corpus.FreshCopy(vals[o.val].m)); rv.Kind() == reflect.Pointer && !rv.IsNil() && rv.Elem().Kind() == reflect.Struct {
				u = rv.Elem().Interface()
			}
		}
		mt := csproto.MsgType(u)
		_, merr := csproto.Marshal(u)
		uerr := csproto.Unmarshal([]byte{8, 1}, u)
		sz := csproto.Size(u)
		cl := csproto.Clone(u)
		eq := csproto.Equal(u, u)
		_, terr := csproto.MarshalText(u)
		_, cmerr := csproto.GrpcCodec{}.Marshal(u)
		cuerr := csproto.GrpcCodec{}.Unmarshal([]byte{8, 1}, u)
		cuerr0 := csproto.GrpcCodec{}.Unmarshal(nil, u)
		uerr0 := csproto.Unmarshal(nil, u)
		res.got = fmt.Sprintf("MsgType=%d Marshal=%v Unmarshal=%v/%v Size=%d Clone=nil:%v Equal=%v MarshalText-err=%v codec=%v/%v/%v", mt, errors.Is(merr, csproto.ErrMarshaler), errors.Is(uerr, csproto.ErrUnmarshaler), errors.Is(uerr0, csproto.ErrUnmarshaler), sz, cl == nil, eq, terr != nil,
			errors.Is(cmerr, csproto.ErrMarshaler), errors.Is(cuerr, csproto.ErrUnmarshaler), errors.Is(cuerr0, csproto.ErrUnmarshaler))
		res.want = "MsgType=0 Marshal=true Unmarshal=true/true Size=0 Clone=nil:true Equal=false MarshalText-err=true codec=true/true/true"
		return
	}
	v := vals[o.val]
	m := corpus.FreshCopy(v.m)
	pv := value{v.k, m}
	switch o.code {
	case oMsgType:
		res.got, res.want = fmt.Sprint(int(csproto.MsgType(m))), fmt.Sprint(int(v.k.class))
	case oMarshal:
		var wb []byte
		var werr error
		if v.k.fast {
			// dispatch transparency: the type's own method
			ownPanics = own(func() { wb, werr = corpus.FreshCopy(v.m).(corpus.FM).Marshal() })
		}
		b, err := csproto.Marshal(m)
		if v.k.fast {
			if ownPanics {
				res.unjudged = true
				return
			}
		} else {
			wb, werr = rtMarshal(value{v.k, corpus.FreshCopy(v.m)})
		}
		eq := (err == nil) == (werr == nil) && (err != nil || corpus.EqualModuloMapOrder(corpus.Wrap(m).Descriptor(), b, wb))
		res.got, res.want = fmt.Sprintf("equal=%v (%d bytes err=%v vs %d bytes err=%v)", eq, len(b), err, len(wb), werr), fmt.Sprintf("equal=true (%d bytes err=%v vs %d bytes err=%v)", len(b), err, len(wb), werr)
	case oSize:
		var wn int
		if v.k.fast {
			ownPanics = own(func() { wn = corpus.FreshCopy(v.m).(corpus.FM).Size() })
		}
		n := csproto.Size(m)
		if v.k.fast {
			if ownPanics {
				res.unjudged = true
				return
			}
		} else {
			wn = rtSize(value{v.k, corpus.FreshCopy(v.m)})
		}
		res.got, res.want = fmt.Sprint(n), fmt.Sprint(wn)
		// "Size equals the length of the marshaled bytes"
		var mb []byte
		var merr error
		if !own(func() { mb, merr = csproto.Marshal(corpus.FreshCopy(v.m)) }) && merr == nil {
			res.got += fmt.Sprintf(" (Marshal gives %d bytes)", len(mb))
			res.want += fmt.Sprintf(" (Marshal gives %d bytes)", n)
		}
	case oUnmarshal, oCodec:
		b := corpus.Encode(corpus.Wrap(v.m))
		if o.uns%3 == 0 {
			b = nil // a message of all defaults travels as a zero-length payload
		}
		dst := v.k.new()
		d2 := v.k.new()
		if o.val2 != o.val && vals[o.val2].k.name == v.k.name {
			// a reused destination that still holds another message (e.g. a stream receive loop)
			dst, d2 = corpus.FreshCopy(vals[o.val2].m), corpus.FreshCopy(vals[o.val2].m)
		}
		var werr error
		if v.k.fast {
			ownPanics = own(func() { werr = d2.(corpus.FM).Unmarshal(b) })
		} else {
			werr = rtUnmarshal(v.k, b, d2)
		}
		var err error
		if o.code == oCodec {
			err = csproto.GrpcCodec{}.Unmarshal(b, dst)
		} else {
			err = csproto.Unmarshal(b, dst)
		}
		if ownPanics {
			res.unjudged = true
			return
		}
		res.got = fmt.Sprintf("err=%v %s", err != nil, corpus.Digest(dst))
		res.want = fmt.Sprintf("err=%v %s", werr != nil, corpus.Digest(d2))
		if o.code == oCodec {
			var mb []byte
			var merr error
			if own(func() { mb, merr = csproto.Marshal(corpus.FreshCopy(v.m)) }) {
				ownPanics = true
				res.unjudged = true
			}
			cb, cerr := csproto.GrpcCodec{}.Marshal(m)
			if ownPanics {
				return
			}
			ok := (cerr == nil) == (merr == nil) && (cerr != nil || corpus.EqualModuloMapOrder(corpus.Wrap(m).Descriptor(), cb, mb)) && (csproto.GrpcCodec{}).Name() == "proto"
			res.got += fmt.Sprintf(" codec.Marshal==csproto.Marshal:%v", ok)
			res.want += " codec.Marshal==csproto.Marshal:true"
		}
	case oClone:
		c := csproto.Clone(m)
		if c == nil {
			res.got = "nil"
		} else {
			res.got = fmt.Sprintf("%T same-pointer=%v %s", c, c == m, corpus.Digest(c))
		}
		// the runtime's own result (protobuf-go's Clone, for one, drops a proto3 negative zero)
		res.want = fmt.Sprintf("%T same-pointer=false %s", m, corpus.Digest(rtClone(value{v.k, corpus.FreshCopy(v.m)})))
	case oEqualSame:
		other := corpus.FreshCopy(vals[o.val2].m)
		if vals[o.val2].k.name != v.k.name {
			// same runtime, different Go types: only judged for "no panic, false"
			if vals[o.val2].k.class != v.k.class {
				res.got, res.want = fmt.Sprint(csproto.Equal(m, other)), "false"
				return
			}
			res.got = fmt.Sprint(csproto.Equal(m, other))
			res.want = "false"
			return
		}
		if o.uns%5 == 1 {
			// one instance as both operands: what the owning runtime says (Gogo compares floats with ==, so a message
			// holding a NaN is not equal to itself there)
			res.got = fmt.Sprint(csproto.Equal(m, m))
			res.want = fmt.Sprint(rtEqual(pv, pv))
			return
		}
		if pm, isV2 := m.(proto.Message); isV2 && v.k.class == csproto.MessageTypeGoogle && o.uns%2 == 0 {
			// the other operand as a dynamic message of the same descriptor: another Go type, the same message type
			if po, ok := other.(proto.Message); ok {
				dyn := dynamicpb.NewMessage(po.ProtoReflect().Descriptor())
				if b, err := proto.Marshal(po); err == nil && proto.Unmarshal(b, dyn) == nil {
					res.got = fmt.Sprintf("%v/%v", csproto.Equal(m, dyn), csproto.Equal(dyn, m))
					res.want = fmt.Sprintf("%v/%v", proto.Equal(pm, dyn), proto.Equal(dyn, pm))
					return
				}
			}
		}
		res.got = fmt.Sprint(csproto.Equal(m, other))
		res.want = fmt.Sprint(rtEqual(pv, value{v.k, corpus.FreshCopy(vals[o.val2].m)}))
	case oEqualCross:
		other := corpus.FreshCopy(vals[o.val2].m)
		res.got = fmt.Sprint(csproto.Equal(m, other))
		if vals[o.val2].k.class != v.k.class {
			res.want = "false"
		} else if vals[o.val2].k.name == v.k.name {
			res.want = fmt.Sprint(rtEqual(pv, value{v.k, corpus.FreshCopy(vals[o.val2].m)}))
		} else {
			res.want = "false"
		}
	case oReset:
		csproto.Reset(m)
		res.got, res.want = corpus.Digest(m), corpus.Digest(v.k.new())
	case oText:
		s, err := csproto.MarshalText(m)
		res.got = fmt.Sprintf("err=%v %q", err != nil, s)
		res.want = fmt.Sprintf("err=false %q", rtText(value{v.k, corpus.FreshCopy(v.m)}))
	}
	return
}

func runC11(t *rapid.T, w *rep.Worker, maxClients int) {
	// a few values of a few types, so that first classifications collide
	nk := rapid.IntRange(1, 4).Draw(t, "nkinds")
	var vals []value
	for i := 0; i < nk; i++ {
		var k kind
		if rapid.Bool().Draw(t, "plain") {
			k = kinds[len(corpus.All)+rapid.IntRange(0, len(kinds)-len(corpus.All)-1).Draw(t, "plainkind")]
		} else {
			k = kinds[rapid.IntRange(0, len(corpus.All)-1).Draw(t, "fastkind")]
		}
		m := k.new()
		if rapid.IntRange(0, 5).Draw(t, "emptyvalue") != 0 { // one value in six stays empty (also of types with required fields)
			func() {
				defer func() { _ = recover() }()
				corpus.Populate(t, corpus.Wrap(m), 1)
			}()
		}
		if rapid.IntRange(0, 3).Draw(t, "unknownfields") == 0 {
			// the value carries fields its schema does not define (it was written by a newer peer): every dispatcher
			// function must treat them as the owning runtime does
			func() {
				defer func() {
					if p := recover(); p != nil && rep.IsChoicePanic(p) {
						panic(p)
					}
				}()
				r := corpus.Wrap(m)
				u := append([]byte{}, r.GetUnknown()...)
				u = protowire.AppendTag(u, 15000, protowire.VarintType)
				u = protowire.AppendVarint(u, 7)
				if rapid.Bool().Draw(t, "unknownbytes") {
					u = protowire.AppendTag(u, 15001, protowire.BytesType)
					u = protowire.AppendString(u, "from a newer schema")
				}
				r.SetUnknown(u)
				w.Fault("value_with_unknown_fields")
			}()
		}
		vals = append(vals, value{k, m})
	}
	nc := rapid.IntRange(2, maxClients).Draw(t, "nclients")
	scripts := make([][]op, nc)
	for c := range scripts {
		for i, n := 0, rapid.IntRange(1, 6).Draw(t, "nops"); i < n; i++ {
			o := op{code: rapid.IntRange(0, nOps-1).Draw(t, "op"), val: rapid.IntRange(0, len(vals)-1).Draw(t, "val"), val2: rapid.IntRange(0, len(vals)-1).Draw(t, "val2"), uns: rapid.IntRange(0, len(unsupported)-1).Draw(t, "uns")}
			if rapid.IntRange(0, 2).Draw(t, "biasmsgtype") == 0 {
				o.code = oMsgType
			}
			scripts[c] = append(scripts[c], o)
		}
	}
	var names []string
	for _, v := range vals {
		names = append(names, v.k.name)
	}
	w.Begin(fmt.Sprintf("types=%v clients=%d race=%v", names, nc, coop.RaceBuild))
	w.MixS(fmt.Sprint(names, scripts))
	cleared := csproto.VerifResetTypeCaches()
	obs := make([][]obsv, nc)
	sched := coop.New(nc, nil)
	active = sched
	rw := coop.WatchRaces()
	sched.Run(func(cc *coop.Client) {
		for _, o := range scripts[cc.ID] {
			sched.Yield("api")
			obs[cc.ID] = append(obs[cc.ID], exec(o, vals))
		}
	}, func(runnable []int) int { return rapid.IntRange(0, len(runnable)-1).Draw(t, "next") })
	active = nil
	w.StepsTot += int64(sched.Decisions)
	w.Sched(sched.Hash())
	w.Mix(sched.Hash())
	_ = cleared
	for _, cc := range sched.Clients() {
		if cc.Panic != nil {
			if rep.IsChoicePanic(cc.Panic) {
				panic(cc.Panic)
			}
			w.Violate(rep.PanicSig("client", cc.Panic, cc.PanicStack), fmt.Sprint(cc.Panic))
		}
	}
	if n, txt := rw.New(); n > 0 {
		sig, ok := coop.RaceSig(txt)
		if !ok {
			t.Fatalf("HARNESS: race report without any csproto frame (harness bug):\n%s", txt)
		}
		w.Step("race detector: %d report(s)", n)
		w.Violate(sig, firstLines(txt, 50))
		w.AttachRace(firstLines(txt, 80))
	}
	judged := 0
	for c, os := range obs {
		for _, o := range os {
			if o.unjudged {
				w.Probe("unjudged: the type's own generated method panics for these contents (C04-class)")
				continue
			}
			judged++
			what := opName[o.op.code]
			if o.op.code == oUnsupported {
				what += " " + unsupported[o.op.uns].name
			} else {
				what += " on " + vals[o.op.val].k.name
			}
			if o.pan != nil {
				w.Step("client %d: %s panicked: %v", c, what, o.pan)
				cls := "message"
				if o.op.code == oUnsupported {
					cls = "unsupported-value:" + unsupported[o.op.uns].name
				}
				w.Violate(rep.PanicSig(opName[o.op.code]+"|"+cls, o.pan, o.stk), fmt.Sprintf("%s: %v", what, o.pan))
				continue
			}
			if o.got != o.want {
				w.Step("client %d: %s", c, what)
				cls := "plain"
				if o.op.code != oUnsupported && vals[o.op.val].k.fast {
					cls = "fast"
				}
				if o.op.code == oUnsupported {
					cls = unsupported[o.op.uns].name
				}
				w.Violate("dispatcher-result-differs|"+opName[o.op.code]+"|"+cls, fmt.Sprintf("%s: got %.300s, expected %.300s", what, o.got, o.want))
			}
		}
	}
	w.Probes["context_switches"] += int64(sched.Switches)
	w.Probes["judged_operations"] += int64(judged)
	w.Probes["type_cache_entries_cleared_before_runs"] += int64(cleared)
	for k, v := range sched.YieldKinds {
		w.Probes["yield:"+k] += int64(v)
	}
	w.State(fmt.Sprintf("kinds=%d|clients=%d|switches>0=%v", nk, nc, sched.Switches > 0))
	if sched.Switches > 0 && judged > 1 {
		w.Note("%d clients, %d decisions, %d switches, schedule hash %x", nc, sched.Decisions, sched.Switches, sched.Hash())
		if w.WantDetail() {
			w.Note("schedule trace: %s", sched.TraceString())
		}
		w.EndNontrivial()
	}
	if sig := w.Pending(); sig != "" {
		t.Fatalf("%s", sig)
	}
}

func firstLines(s string, n int) string {
	k := 0
	for i := range s {
		if s[i] == '\n' {
			k++
			if k == n {
				return s[:i]
			}
		}
	}
	return s
}

var _ = bytes.Equal

func TestC11Coop(t *testing.T) {
	w := rep.NewWorker(t, "C11", "coop")
	defer w.Finish()
	mc := rep.ParamInt("max_clients", 4)
	rapid.Check(t, func(rt *rapid.T) { runC11(rt, w, mc) })
}
