//go:build race

package coop

import "runtime"

// RaceBuild reports whether the race detector is compiled in.
const RaceBuild = true

func raceDisable()    { runtime.RaceDisable() }
func raceEnable()     { runtime.RaceEnable() }
func raceErrors() int { return runtime.RaceErrors() }
