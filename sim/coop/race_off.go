//go:build !race

package coop

// RaceBuild reports whether the race detector is compiled in.
const RaceBuild = false

func raceDisable()    {}
func raceEnable()     {}
func raceErrors() int { return 0 }
