// Package coop is the cooperative scheduler: clients are real goroutines, exactly one of them holds
// the token at any time, and the scheduler (the test goroutine, which also owns the choice source)
// decides who runs next. All token passing happens inside runtime.RaceDisable/RaceEnable in
// //go:norace functions, so the scheduler adds no happens-before edges: the race detector sees only
// the synchronisation the code under test performs itself (plus goroutine start and the final join).
//
// Discipline: memory shared between scheduler and clients (the per-client slots, cur) is touched only
// in named //go:norace functions; maps and growing slices are owned by the scheduler goroutine alone.
package coop

import (
	"fmt"
	"os"
	"regexp"
	"runtime"
	"runtime/debug"
	"strings"
	"sync"
	"time"

	"github.com/CrowdStrike/csproto/lazyproto"
)

// request kinds
const (
	reqYield = iota
	reqGet
	reqPut
)

// Client is one simulated caller goroutine.
type Client struct {
	ID   int
	wake chan struct{}
	// slot (norace access only)
	kind    int
	pool    *lazyproto.VerifPool
	obj     any
	respObj any
	respOK  bool
	where   string
	done    bool
	abort   bool
	// private to the client goroutine until the final join
	Panic      any
	PanicStack []byte
	yields     int
}

// PoolModel is what the scheduler consults for pool requests (simpool.Model).
type PoolModel interface {
	Get(p *lazyproto.VerifPool) (any, bool)
	Put(p *lazyproto.VerifPool, x any)
}

// Sched runs one simulated execution.
type Sched struct {
	clients []*Client
	back    chan int
	cur     int // index of the client holding the token, -1 while the scheduler itself runs
	Model   PoolModel
	wg      sync.WaitGroup

	// statistics (scheduler goroutine only)
	Decisions    int
	Switches     int
	ContendedGet int // a Get was served while another client was between its Get and Put on the same pool
	hash         uint64
	last         int
	inflight     map[*lazyproto.VerifPool]map[int]int
	YieldKinds   map[string]int
	trace        []byte // client id per scheduling decision
	where        []string
}

// TraceString renders the schedule: for every decision the client that ran and the scheduling point it
// had parked at (run-length compressed), e.g. "c0@start c1@start c0@pool.Get x3 c1@api".
func (s *Sched) TraceString() string {
	var sb strings.Builder
	for i := 0; i < len(s.trace); {
		j := i
		for j < len(s.trace) && s.trace[j] == s.trace[i] && s.where[j] == s.where[i] {
			j++
		}
		fmt.Fprintf(&sb, "c%d@%s", s.trace[i], s.where[i])
		if j-i > 1 {
			fmt.Fprintf(&sb, " x%d", j-i)
		}
		sb.WriteByte(' ')
		i = j
		if sb.Len() > 6000 {
			sb.WriteString("...")
			break
		}
	}
	return sb.String()
}

// New creates a scheduler for n clients.
func New(n int, model PoolModel) *Sched {
	s := &Sched{back: make(chan int), cur: -1, Model: model, hash: 1469598103934665603, last: -1,
		inflight: map[*lazyproto.VerifPool]map[int]int{}, YieldKinds: map[string]int{}}
	for i := 0; i < n; i++ {
		s.clients = append(s.clients, &Client{ID: i, wake: make(chan struct{})})
	}
	return s
}

// Hash is the fingerprint of the decision sequence at points where at least two clients were runnable.
func (s *Sched) Hash() uint64 { return s.hash }

//go:norace
func (s *Sched) current() *Client {
	if s.cur < 0 {
		return nil
	}
	return s.clients[s.cur]
}

//go:norace
func (s *Sched) setCur(i int) { s.cur = i }

//go:norace
func post(c *Client, kind int, p *lazyproto.VerifPool, x any, where string) {
	c.kind, c.pool, c.obj, c.where = kind, p, x, where
}

//go:norace
func readReq(c *Client) (int, *lazyproto.VerifPool, any, string, bool) {
	return c.kind, c.pool, c.obj, c.where, c.done
}

//go:norace
func respond(c *Client, x any, ok bool) { c.respObj, c.respOK = x, ok; c.kind = reqYield; c.obj = nil }

//go:norace
func takeResp(c *Client) (any, bool) { x, ok := c.respObj, c.respOK; c.respObj = nil; return x, ok }

//go:norace
func markDone(c *Client) { c.done = true }

//go:norace
func setAbort(c *Client) { c.abort = true }

//go:norace
func isAbort(c *Client) bool { return c.abort }

// park hands the token back and waits to be resumed. Client goroutine only.
//
//go:norace
func (s *Sched) park(c *Client) {
	raceDisable()
	s.back <- c.ID
	<-c.wake
	raceEnable()
	if isAbort(c) {
		runtime.Goexit()
	}
}

// resume gives the token to c and waits until it parks or finishes. Scheduler goroutine only.
//
//go:norace
func (s *Sched) resume(c *Client) {
	raceDisable()
	c.wake <- struct{}{}
	<-s.back
	raceEnable()
}

// Yield is a scheduling point; a no-op when called outside a client (scheduler context).
func (s *Sched) Yield(where string) {
	c := s.current()
	if c == nil {
		return
	}
	post(c, reqYield, nil, nil, where)
	s.park(c)
}

// Get implements lazyproto.VerifPoolModel on behalf of the running client.
func (s *Sched) Get(p *lazyproto.VerifPool) (any, bool) {
	c := s.current()
	if c == nil {
		return s.Model.Get(p)
	}
	post(c, reqGet, p, nil, "pool.Get")
	s.park(c)
	return takeResp(c)
}

// Put implements lazyproto.VerifPoolModel on behalf of the running client.
func (s *Sched) Put(p *lazyproto.VerifPool, x any) {
	c := s.current()
	if c == nil {
		s.Model.Put(p, x)
		return
	}
	post(c, reqPut, p, x, "pool.Put")
	s.park(c)
}

func (s *Sched) clientMain(c *Client, fn func(c *Client)) {
	defer s.wg.Done()
	defer func() {
		// finishing: tell the scheduler (hidden), then the deferred wg.Done is the visible join edge
		if !isAbort(c) {
			markDone(c)
			raceDisable()
			s.back <- c.ID
			raceEnable()
		}
	}()
	defer func() {
		if r := recover(); r != nil {
			c.Panic = r
			c.PanicStack = debug.Stack()
		}
	}()
	raceDisable()
	<-c.wake
	raceEnable()
	if isAbort(c) {
		return
	}
	fn(c)
}

// Run executes fn on every client under the schedule chosen by pick (called on the scheduler
// goroutine with the sorted list of runnable client ids; must return an index into it).
func (s *Sched) Run(fn func(c *Client), pick func(runnable []int) int) {
	s.wg.Add(len(s.clients))
	for _, c := range s.clients {
		go s.clientMain(c, fn)
	}
	runnable := make([]int, len(s.clients))
	for i := range runnable {
		runnable[i] = i
	}
	started := make([]bool, len(s.clients))
	finished := false
	defer func() {
		if finished {
			return
		}
		// the choice source unwound the execution: release every parked client, then join
		for _, id := range runnable {
			c := s.clients[id]
			setAbort(c)
			raceDisable()
			c.wake <- struct{}{}
			raceEnable()
		}
		s.setCur(-1)
		s.wg.Wait()
	}()
	for len(runnable) > 0 {
		k := 0
		if len(runnable) > 1 {
			k = pick(runnable)
			s.hash ^= uint64(runnable[k] + 1)
			s.hash *= 1099511628211
		}
		id := runnable[k]
		c := s.clients[id]
		s.Decisions++
		if s.last >= 0 && s.last != id {
			s.Switches++
		}
		s.last = id
		s.trace = append(s.trace, byte(id))
		if !started[id] {
			s.where = append(s.where, "start")
		}
		if started[id] {
			kind, p, x, where, _ := readReq(c)
			s.where = append(s.where, where)
			s.YieldKinds[where]++
			switch kind {
			case reqGet:
				for other, n := range s.inflight[p] {
					if other != id && n > 0 {
						s.ContendedGet++
						break
					}
				}
				obj, ok := s.Model.Get(p)
				respond(c, obj, ok)
				if s.inflight[p] == nil {
					s.inflight[p] = map[int]int{}
				}
				s.inflight[p][id]++
			case reqPut:
				s.Model.Put(p, x)
				respond(c, nil, false)
				if s.inflight[p] != nil && s.inflight[p][id] > 0 {
					s.inflight[p][id]--
				}
			}
		}
		started[id] = true
		s.setCur(id)
		s.resume(c)
		s.setCur(-1)
		if _, _, _, _, done := readReq(c); done {
			runnable = append(runnable[:k], runnable[k+1:]...)
		}
	}
	finished = true
	s.wg.Wait() // visible join: everything the clients did happens-before what the scheduler does next
}

// Clients returns the client objects (read them only after Run returned).
func (s *Sched) Clients() []*Client { return s.clients }

// RaceWatch captures race-detector output between two points of one process.
type RaceWatch struct {
	errs0 int
	path  string
	off   int64
}

// WatchRaces starts a watch. The report text is read from the file GORACE's log_path points to.
func WatchRaces() *RaceWatch {
	rw := &RaceWatch{errs0: raceErrors()}
	for _, kv := range strings.Fields(os.Getenv("GORACE")) {
		if strings.HasPrefix(kv, "log_path=") {
			rw.path = fmt.Sprintf("%s.%d", strings.TrimPrefix(kv, "log_path="), os.Getpid())
		}
	}
	if rw.path != "" {
		if st, err := os.Stat(rw.path); err == nil {
			rw.off = st.Size()
		}
	}
	return rw
}

// New returns the number of races reported since the watch started and their text.
func (rw *RaceWatch) New() (int, string) {
	n := raceErrors() - rw.errs0
	if n == 0 {
		return 0, ""
	}
	txt := ""
	for try := 0; try < 20 && rw.path != ""; try++ {
		if b, err := os.ReadFile(rw.path); err == nil && int64(len(b)) > rw.off {
			txt = string(b[rw.off:])
			if strings.Count(txt, "WARNING: DATA RACE") >= 1 && strings.HasSuffix(strings.TrimSpace(txt), "==================") {
				break
			}
		}
		time.Sleep(5 * time.Millisecond) // reporting only; no effect on the schedule
	}
	return n, txt
}

var fnLine = regexp.MustCompile(`^  (\S+)\(\)$`)

// RaceSig derives a signature from the first race report in the text: the innermost csproto function
// of each of the two conflicting accesses. ok is false if the innermost non-runtime frame of every
// access lies in the harness itself (then the report is a harness bug: infrastructure error, not a violation).
func RaceSig(report string) (sig string, ok bool) {
	lines := strings.Split(report, "\n")
	var blocks [][]string
	var cur []string
	in := false
	nrep := 0
	for _, l := range lines {
		switch {
		case strings.HasPrefix(l, "WARNING: DATA RACE"):
			nrep++
			if nrep > 1 {
				goto done
			}
		case strings.HasPrefix(l, "Write at") || strings.HasPrefix(l, "Read at") || strings.HasPrefix(l, "Previous write at") || strings.HasPrefix(l, "Previous read at") ||
			strings.HasPrefix(l, "Atomic write at") || strings.HasPrefix(l, "Atomic read at") || strings.HasPrefix(l, "Previous atomic write at") || strings.HasPrefix(l, "Previous atomic read at"):
			if cur != nil {
				blocks = append(blocks, cur)
			}
			cur = []string{}
			in = true
		case strings.HasPrefix(l, "Goroutine ") || strings.HasPrefix(l, "=========="):
			if cur != nil {
				blocks = append(blocks, cur)
				cur = nil
			}
			in = false
		default:
			if in {
				if m := fnLine.FindStringSubmatch(l); m != nil {
					cur = append(cur, m[1])
				}
			}
		}
	}
done:
	if cur != nil {
		blocks = append(blocks, cur)
	}
	if len(blocks) == 0 {
		return "race|unparsed", strings.Contains(report, "github.com/CrowdStrike/csproto")
	}
	var fns []string
	lib := false
	for _, b := range blocks {
		top, inner := "", "-"
		for _, f := range b {
			if strings.HasPrefix(f, "runtime.") || strings.HasPrefix(f, "sync/atomic.") || strings.HasPrefix(f, "internal/") {
				continue
			}
			if top == "" {
				top = f
			}
			if strings.HasPrefix(f, "github.com/CrowdStrike/csproto") {
				inner = strings.TrimPrefix(strings.TrimPrefix(f, "github.com/CrowdStrike/csproto"), "/")
				break
			}
		}
		if !strings.HasPrefix(top, "verifsim/") {
			lib = true
		}
		fns = append(fns, inner)
	}
	return "race|" + strings.Join(fns, "|"), lib
}
