// Package c20 checks C20 for protodump over its input seam: the dump routine fed through a simulated
// io.Reader (short reads, zero-length reads, an error after n bytes, early EOF = truncation) and the built
// binary fed through a regular file, a pipe with drawn chunking, -file, an empty file and /dev/null.
// Every message enters as annotated hex (drawn spacing, line breaks, ';' comments) parsed by
// prototest.ParseAnnotatedHex, which must return the source bytes.
package c20

import (
	"bufio"
	"bytes"
	"encoding/json"
	"fmt"
	"io"
	"os"
	"os/exec"
	"path/filepath"
	"regexp"
	"strconv"
	"strings"
	"testing"

	"github.com/CrowdStrike/csproto/prototest"
	"pgregory.net/rapid"

	"verifsim/rep"
	"verifsim/wirex"
)

// ---- helper server (cmd/protodump test binary built from the working tree) ----

type req struct {
	Data        []byte   `json:"data"`
	Expand      []string `json:"expand"`
	Strings     []string `json:"strings"`
	Chunk       int      `json:"chunk"`
	ZeroReads   bool     `json:"zero_reads"`
	ErrAfter    int      `json:"err_after"`
	EOFWithData bool     `json:"eof_with_data"`
}

type resp struct {
	Stdout []byte `json:"stdout"`
	Err    string `json:"err"`
	IsRead bool   `json:"is_read_err"`
	Panic  string `json:"panic"`
}

type server struct {
	cmd *exec.Cmd
	in  io.WriteCloser
	out *bufio.Reader
}

func startServer(t *testing.T) *server {
	bin := filepath.Join(os.Getenv("VERIF_BIN"), "protodump.test")
	pr, pw, err := os.Pipe()
	if err != nil {
		t.Fatalf("HARNESS: %v", err)
	}
	cmd := exec.Command(bin, "-test.run", "^TestVerifC20Server$", "-test.timeout", "0")
	cmd.Env = append(os.Environ(), "VERIF_C20_SERVER=1")
	cmd.ExtraFiles = []*os.File{pw}
	cmd.Stderr = os.Stderr
	in, err := cmd.StdinPipe()
	if err != nil {
		t.Fatalf("HARNESS: %v", err)
	}
	if err := cmd.Start(); err != nil {
		t.Fatalf("HARNESS: cannot start helper %s: %v", bin, err)
	}
	pw.Close()
	return &server{cmd: cmd, in: in, out: bufio.NewReaderSize(pr, 1<<20)}
}

func (s *server) do(r req) (resp, error) {
	b, _ := json.Marshal(r)
	if _, err := s.in.Write(append(b, '\n')); err != nil {
		return resp{}, err
	}
	line, err := s.out.ReadBytes('\n')
	if err != nil {
		return resp{}, fmt.Errorf("helper died: %v", err)
	}
	var out resp
	return out, json.Unmarshal(line, &out)
}

// ---- reference ----

type entry struct {
	depth int
	tag   int
	kind  string // varint | fixed32 | fixed64 | length
	u     uint64
	bytes []byte
	str   bool
}

const (
	accept   = "accept"
	rejected = "reject" // every reader must reject: something runs past the end of the data
	unjudged = "unjudged"
)

func lenientVarint(b []byte) (uint64, int) {
	var v uint64
	for i := 0; i < len(b) && i < 10; i++ {
		v |= uint64(b[i]&0x7f) << (7 * uint(i))
		if b[i] < 0x80 {
			return v, i + 1
		}
	}
	return 0, 0
}

// walk renders what a reference parser finds, recursing into exactly the requested paths.
func walk(b []byte, path []int, depth int, expand, strs map[string]bool, out *[]entry) string {
	verdict := accept
	for len(b) > 0 {
		k, n := lenientVarint(b)
		if n == 0 {
			if len(b) >= 10 {
				return unjudged // unterminated 10-byte varint
			}
			return rejected
		}
		if _, sn := wirex.ReadVarint(b); sn == 0 {
			verdict = unjudged // over-long varint encoding
		}
		tag, wt := int(k>>3), int(k&7)
		if tag == 0 || k > 1<<29-1 {
			return unjudged // field number 0, or a key csproto's DecodeTag refuses (>= 2^26): C02 matter
		}
		b = b[n:]
		p := append(append([]int{}, path...), tag)
		key := pathKey(p)
		switch wt {
		case wirex.Varint:
			v, m := lenientVarint(b)
			if m == 0 {
				if len(b) >= 10 {
					return unjudged
				}
				return rejected
			}
			if _, sm := wirex.ReadVarint(b); sm == 0 {
				verdict = unjudged
			}
			*out = append(*out, entry{depth: depth, tag: tag, kind: "varint", u: v})
			b = b[m:]
		case wirex.Fixed32:
			if len(b) < 4 {
				return rejected
			}
			*out = append(*out, entry{depth: depth, tag: tag, kind: "fixed32", u: uint64(b[0]) | uint64(b[1])<<8 | uint64(b[2])<<16 | uint64(b[3])<<24})
			b = b[4:]
		case wirex.Fixed64:
			if len(b) < 8 {
				return rejected
			}
			var v uint64
			for i := 0; i < 8; i++ {
				v |= uint64(b[i]) << (8 * uint(i))
			}
			*out = append(*out, entry{depth: depth, tag: tag, kind: "fixed64", u: v})
			b = b[8:]
		case wirex.Bytes:
			l, m := lenientVarint(b)
			if m == 0 {
				if len(b) >= 10 {
					return unjudged
				}
				return rejected
			}
			if _, sm := wirex.ReadVarint(b); sm == 0 {
				verdict = unjudged
			}
			if l > uint64(len(b)-m) {
				if l > 1<<31-1 {
					return unjudged // csproto reports ErrLenOverflow: also an error, but keep the classes apart
				}
				return rejected
			}
			payload := b[m : m+int(l)]
			b = b[m+int(l):]
			*out = append(*out, entry{depth: depth, tag: tag, kind: "length", u: l, bytes: payload, str: strs[key]})
			if !strs[key] && expand[key] {
				switch walk(payload, p, depth+1, expand, strs, out) {
				case rejected:
					return rejected
				case unjudged:
					return unjudged
				}
			}
		default:
			return unjudged // groups / reserved wire types: the writer never emits them
		}
	}
	return verdict
}

func pathKey(p []int) string {
	s := make([]string, len(p))
	for i, t := range p {
		s[i] = strconv.Itoa(t)
	}
	return strings.Join(s, ".")
}

var (
	reTag   = regexp.MustCompile(`^( *)tag: (\d+), wire type: (.+)$`)
	reVal   = regexp.MustCompile(`^ *(varint|fixed32|fixed64|length): (-?\d+)$`)
	reBytes = regexp.MustCompile(`^ *\[((?:0x[0-9A-Fa-f]{2})(?:,0x[0-9A-Fa-f]{2})*)?\]$`)
	reStr   = regexp.MustCompile(`^ *string: (.*)$`)
)

// parseDump reads protodump's output tolerantly. ok=false means the parser cannot read it (exit 2 matter).
func parseDump(s string) (out []entry, ok bool, why string) {
	lines := strings.Split(s, "\n")
	var cur *entry
	for i := 0; i < len(lines); i++ {
		ln := lines[i]
		if ln == "" {
			continue
		}
		if m := reTag.FindStringSubmatch(ln); m != nil {
			tag, _ := strconv.Atoi(m[2])
			out = append(out, entry{depth: len(m[1]) / 2, tag: tag})
			cur = &out[len(out)-1]
			continue
		}
		if cur == nil {
			return out, false, "value line before any tag line: " + ln
		}
		if m := reVal.FindStringSubmatch(ln); m != nil {
			cur.kind = m[1]
			if m[1] == "varint" {
				v, err := strconv.ParseInt(m[2], 10, 64)
				if err != nil {
					return out, false, "bad varint: " + ln
				}
				cur.u = uint64(v)
			} else {
				v, err := strconv.ParseUint(m[2], 10, 64)
				if err != nil {
					return out, false, "bad number: " + ln
				}
				cur.u = v
			}
			continue
		}
		if m := reBytes.FindStringSubmatch(ln); m != nil {
			cur.bytes = []byte{}
			if m[1] != "" {
				for _, h := range strings.Split(m[1], ",") {
					v, _ := strconv.ParseUint(h[2:], 16, 8)
					cur.bytes = append(cur.bytes, byte(v))
				}
			}
			continue
		}
		if m := reStr.FindStringSubmatch(ln); m != nil {
			cur.str = true
			cur.bytes = []byte(m[1])
			continue
		}
		return out, false, "unrecognised line: " + ln
	}
	return out, true, ""
}

func sameEntries(got, want []entry, prefixOnly bool) string {
	n := len(want)
	if prefixOnly {
		if len(got) > len(want) {
			return fmt.Sprintf("%d entries printed, the reference finds only %d", len(got), len(want))
		}
		n = len(got)
	} else if len(got) != len(want) {
		return fmt.Sprintf("%d entries printed, the reference finds %d", len(got), len(want))
	}
	for i := 0; i < n; i++ {
		g, w := got[i], want[i]
		if prefixOnly && i == n-1 {
			if g.depth != w.depth || g.tag != w.tag {
				return fmt.Sprintf("entry %d: depth/tag %d/%d, reference %d/%d", i, g.depth, g.tag, w.depth, w.tag)
			}
			continue
		}
		if g.depth != w.depth || g.tag != w.tag || g.kind != w.kind || g.u != w.u {
			return fmt.Sprintf("entry %d: printed depth=%d tag=%d %s=%d, reference depth=%d tag=%d %s=%d", i, g.depth, g.tag, g.kind, g.u, w.depth, w.tag, w.kind, w.u)
		}
		if w.kind == "length" {
			if g.str != w.str {
				return fmt.Sprintf("entry %d (tag %d): rendered as string=%v, requested string=%v", i, w.tag, g.str, w.str)
			}
			if !bytes.Equal(g.bytes, w.bytes) {
				return fmt.Sprintf("entry %d (tag %d): payload %x, reference %x", i, w.tag, g.bytes, w.bytes)
			}
		}
	}
	return ""
}

// ---- generators ----

func genRecs(t *rapid.T, depth int) []wirex.Rec {
	n := rapid.IntRange(0, 5).Draw(t, "nrec")
	var recs []wirex.Rec
	for i := 0; i < n; i++ {
		r := wirex.Rec{Tag: []int{1, 2, 3, 4, 15, 16, 2047, 1 << 20}[rapid.IntRange(0, 7).Draw(t, "tag")]}
		switch rapid.IntRange(0, 5).Draw(t, "kind") {
		case 0:
			r.WT, r.U = wirex.Varint, []uint64{0, 1, 150, 1 << 40, ^uint64(0)}[rapid.IntRange(0, 4).Draw(t, "v")]
		case 1:
			r.WT, r.U = wirex.Fixed32, uint64(rapid.Uint32().Draw(t, "f32"))
		case 2:
			r.WT, r.U = wirex.Fixed64, rapid.Uint64().Draw(t, "f64")
		case 3:
			r.WT, r.B = wirex.Bytes, []byte([]string{"", "a", "hello", "x y z", "tab\tsep"}[rapid.IntRange(0, 4).Draw(t, "s")])
		default:
			r.WT = wirex.Bytes
			if depth < 3 {
				r.Sub = genRecs(t, depth+1)
				if r.Sub == nil {
					r.Sub = []wirex.Rec{}
				}
			} else {
				r.B = []byte{1, 2, 3}
			}
		}
		recs = append(recs, r)
	}
	return recs
}

func collectPaths(recs []wirex.Rec, prefix []int, nested, leaves *[]string) {
	for _, r := range recs {
		p := append(append([]int{}, prefix...), r.Tag)
		if r.WT != wirex.Bytes {
			continue
		}
		if r.Sub != nil {
			*nested = append(*nested, pathKey(p))
			collectPaths(r.Sub, p, nested, leaves)
		} else {
			*leaves = append(*leaves, pathKey(p))
		}
	}
}

func renderHex(t *rapid.T, b []byte) string {
	var sb strings.Builder
	for i, c := range b {
		fmt.Fprintf(&sb, []string{"%02x", "%02X"}[rapid.IntRange(0, 1).Draw(t, "case")], c)
		switch rapid.IntRange(0, 9).Draw(t, "sep") {
		case 7:
			sb.WriteString([]string{"\u00a0", "\u2028", "\u3000", "\u0085"}[rapid.IntRange(0, 3).Draw(t, "uspace")]) // Unicode white space
		case 8:
			sb.WriteString("\r\n")
		case 0:
			sb.WriteString(" ")
		case 1:
			sb.WriteString("\n")
		case 2:
			sb.WriteString("  ; field " + strconv.Itoa(i) + " 0xFF not hex ;; \n")
		case 3:
			sb.WriteString("\t")
		}
	}
	if rapid.Bool().Draw(t, "trailing") {
		sb.WriteString(" ; trailing comment without newline")
	}
	return sb.String()
}

var srv *server

func runC20(t *rapid.T, w *rep.Worker, tt *testing.T) {
	recs := genRecs(t, 0)
	valid, spans := wirex.Encode(recs)
	// the message enters as annotated hex
	hexText := renderHex(t, valid)
	parsed, perr := prototest.ParseAnnotatedHex(hexText)
	w.Begin(fmt.Sprintf("message=%x", valid))
	w.MixS(string(valid))
	if perr != nil || !bytes.Equal(parsed, valid) {
		w.Step("ParseAnnotatedHex(%q)", hexText)
		w.Violate("annotated-hex-roundtrip", fmt.Sprintf("rendered %x, ParseAnnotatedHex returned %x err=%v", valid, parsed, perr))
	}
	// a corruption outside every comment must be rejected
	if rapid.IntRange(0, 2).Draw(t, "corrupthex") == 0 {
		bad := []string{"\x00", "\x01", "\x1b", "\x08", "g", "0x", "-", "\x7f", "\u0141\u0141", "\u0130\u0130", "\u0146\u0161", "\uff10\uff11"}[rapid.IntRange(0, 11).Draw(t, "badchar")]
		text := bad + hexText
		if rapid.Bool().Draw(t, "badatend") {
			text = hexText + "\n" + bad
		}
		w.Fault("annotated_hex_corruption")
		if got, err := prototest.ParseAnnotatedHex(text); err == nil {
			w.Step("ParseAnnotatedHex(%q)", text)
			w.Violate("annotated-hex-accepts-corruption", fmt.Sprintf("text with %q outside comments was accepted and parsed to %x", bad, got))
		}
	}
	// very long lines are placements of line breaks too
	if rapid.IntRange(0, 39).Draw(t, "longline") == 0 {
		big := make([]byte, rapid.IntRange(30000, 40000).Draw(t, "biglen"))
		for i := range big {
			big[i] = byte(i*7 + 3)
		}
		sep := []string{"", " ", "\t"}[rapid.IntRange(0, 2).Draw(t, "bigsep")]
		var sb strings.Builder
		for _, c := range big {
			fmt.Fprintf(&sb, "%02x%s", c, sep)
		}
		sb.WriteString("\n0a ; last line\n")
		w.Fault("annotated_hex_long_line")
		got, err := prototest.ParseAnnotatedHex(sb.String())
		if err != nil || !bytes.Equal(got, append(append([]byte{}, big...), 0x0a)) {
			w.Step("ParseAnnotatedHex(one line of %d characters, then a short line)", sb.Len())
			w.Violate("annotated-hex-roundtrip", fmt.Sprintf("a %d-byte message rendered on one long line parsed to %d bytes, err=%v", len(big)+1, len(got), err))
		}
	}
	data := parsed
	if data == nil {
		data = valid
	}
	// medium
	dmg := "valid"
	if len(data) > 0 {
		switch rapid.IntRange(0, 5).Draw(t, "damage") {
		case 0:
			k := rapid.IntRange(0, len(data)-1).Draw(t, "cut")
			if len(spans) > 0 && rapid.Bool().Draw(t, "cutinside") {
				sp := spans[rapid.IntRange(0, len(spans)-1).Draw(t, "span")]
				k = []int{sp.KeyEnd, sp.LenEnd, (sp.PayStart + sp.PayEnd) / 2}[rapid.IntRange(0, 2).Draw(t, "where")]
				if k >= len(data) {
					k = len(data) - 1
				}
			}
			data, dmg = wirex.Truncate(data, k), fmt.Sprintf("truncate@%d", k)
			w.Fault(wirex.FTruncate)
		case 1:
			i := rapid.IntRange(0, len(data)-1).Draw(t, "flip")
			data, dmg = wirex.FlipBit(data, i, uint(rapid.IntRange(0, 7).Draw(t, "bit"))), fmt.Sprintf("bitflip@%d", i)
			w.Fault(wirex.FBitFlip)
		}
	}
	// expand / strings path sets
	var nested, leaves []string
	collectPaths(recs, nil, &nested, &leaves)
	expand, strs := map[string]bool{}, map[string]bool{}
	var expandArgs, strArgs []string
	for _, p := range nested {
		if rapid.IntRange(0, 2).Draw(t, "exp") != 0 {
			expand[p] = true
			expandArgs = append(expandArgs, p)
		}
	}
	for _, p := range leaves {
		if rapid.IntRange(0, 2).Draw(t, "str") == 0 {
			strs[p] = true
			strArgs = append(strArgs, p)
		}
	}
	if rapid.IntRange(0, 5).Draw(t, "bogus") == 0 {
		expandArgs = append(expandArgs, "9.9")
		expand["9.9"] = true
	}
	// flag syntax: a drawn mix of repeated flags and comma lists
	join := func(a []string) []string {
		if len(a) > 1 && rapid.Bool().Draw(t, "comma") {
			return []string{strings.Join(a, ",")}
		}
		return a
	}
	expandArgs, strArgs = join(expandArgs), join(strArgs)
	var want []entry
	verdict := walk(data, nil, 0, expand, strs, &want)
	for _, e := range want {
		if e.str && bytes.ContainsAny(e.bytes, "\n\r") {
			verdict = unjudged // a string payload with line breaks cannot be read back from line-oriented output
		}
	}
	w.Step("data=%x (%s) expand=%v strings=%v reference verdict=%s (%d entries)", data, dmg, expandArgs, strArgs, verdict, len(want))

	// (a) in process through the reader seam
	r := req{Data: data, Expand: expandArgs, Strings: strArgs, ErrAfter: -1}
	if rapid.Bool().Draw(t, "chunked") {
		r.Chunk = rapid.IntRange(1, 7).Draw(t, "chunk")
	}
	r.ZeroReads = rapid.IntRange(0, 3).Draw(t, "zeroreads") == 0
	if r.EOFWithData = rapid.IntRange(0, 2).Draw(t, "eofwithdata") == 0; r.EOFWithData {
		w.Fault("final_read_returns_data_and_eof")
	}
	if len(data) > 0 && rapid.IntRange(0, 4).Draw(t, "readerr") == 0 {
		r.ErrAfter = rapid.IntRange(0, len(data)).Draw(t, "errafter")
		w.Fault("read_error")
	}
	if r.Chunk > 0 {
		w.Fault("short_reads")
	}
	if r.ZeroReads {
		w.Fault("zero_length_reads")
	}
	opDump := "dumpProtoFile(reader seam)"
	w.WatchBegin(&opDump)
	out, err := srv.do(r)
	w.WatchEnd()
	if err != nil {
		// the helper process is gone: the code under test ended it (os.Exit, log.Fatal) or the Go runtime did
		// (stack exhaustion, a fatal error) - neither is "an error, never a crash"
		w.Violate("protodump-ended-the-process|reader-seam", fmt.Sprintf("%v while dumping %x", err, clipB(data)))
		_ = srv.cmd.Wait()
		srv = startServer(tt)
		return
	}
	judge(w, "reader-seam", r.ErrAfter >= 0, out.Panic, out.Err != "", out.IsRead, string(out.Stdout), verdict, want, tt)

	// (b) the built binary as a process
	if rapid.IntRange(0, 7).Draw(t, "process") == 0 {
		how := rapid.IntRange(0, 3).Draw(t, "stdin")
		chunk := rapid.IntRange(1, 9).Draw(t, "pchunk")
		stdout, code, crashed := runBinary(tt, data, expandArgs, strArgs, how, chunk)
		name := []string{"stdin=regular-file", "stdin=pipe", "-file", "stdin=pipe-single-write"}[how]
		w.Step("process %s: exit %d", name, code)
		w.Fault("process:" + name)
		if len(data) == 0 {
			// nothing to dump: the tool may report "no data" (exit 1) or print nothing; it must not crash
			if crashed {
				w.Violate("process-crash|"+name, fmt.Sprintf("exit %d on empty input", code))
			}
		} else {
			pan := ""
			if crashed {
				pan = fmt.Sprintf("killed by signal or runtime panic (exit %d)", code)
			}
			judge(w, name, false, pan, code != 0, false, stdout, verdict, want, tt)
		}
	}
	w.State(verdict + "|" + dmg[:min(len(dmg), 5)])
	w.Probe("verdict_" + verdict)
	if len(want) > 0 {
		w.EndNontrivial()
	}
	if sig := w.Pending(); sig != "" {
		t.Fatalf("%s", sig)
	}
}

func judge(w *rep.Worker, via string, readFault bool, panicText string, failed, isReadErr bool, stdout, verdict string, want []entry, tt *testing.T) {
	if panicText != "" {
		w.Violate("protodump-crash|"+via, panicText[:min(len(panicText), 300)])
		return
	}
	if readFault {
		if !failed {
			w.Violate("read-error-swallowed|"+via, "the reader failed but dumpProtoFile returned nil")
		}
		return
	}
	switch verdict {
	case rejected:
		if !failed {
			w.Violate("malformed-input-not-reported|"+via, fmt.Sprintf("the input runs past its end but no error was reported; stdout %q", clip(stdout)))
		}
	case accept:
		if failed {
			w.Violate("valid-input-rejected|"+via, fmt.Sprintf("the reference accepts the input, protodump reported an error; stdout %q", clip(stdout)))
			return
		}
		got, ok, why := parseDump(stdout)
		if !ok {
			// the output of a successful dump of a valid message does not follow protodump's own format: what is
			// printed does not correspond to the input
			w.Violate("dump-output-malformed|"+via, fmt.Sprintf("%s; stdout %q", why, clip(stdout)))
			return
		}
		if d := sameEntries(got, want, false); d != "" {
			w.Violate("dump-differs-from-reference|"+via, d+fmt.Sprintf("; stdout %q", clip(stdout)))
		}
	}
}

func clipB(b []byte) []byte {
	if len(b) > 200 {
		return b[:200]
	}
	return b
}

func clip(s string) string {
	if len(s) > 400 {
		return s[:400]
	}
	return s
}

func runBinary(tt *testing.T, data []byte, expand, strs []string, how, chunk int) (string, int, bool) {
	bin := filepath.Join(os.Getenv("VERIF_BIN"), "protodump")
	var args []string
	for _, e := range expand {
		args = append(args, "-expand", e)
	}
	for _, s := range strs {
		args = append(args, "-strings", s)
	}
	dir := tt.TempDir()
	path := filepath.Join(dir, "msg.bin")
	if err := os.WriteFile(path, data, 0o644); err != nil {
		tt.Fatalf("HARNESS: %v", err)
	}
	var stdout bytes.Buffer
	var cmd *exec.Cmd
	switch how {
	case 2:
		cmd = exec.Command(bin, append([]string{"-file", path}, args...)...)
	default:
		cmd = exec.Command(bin, args...)
	}
	cmd.Stdout = &stdout
	cmd.Stderr = io.Discard
	switch how {
	case 0:
		f, err := os.Open(path)
		if err != nil {
			tt.Fatalf("HARNESS: %v", err)
		}
		defer f.Close()
		cmd.Stdin = f
	case 1, 3:
		pr, pw, err := os.Pipe()
		if err != nil {
			tt.Fatalf("HARNESS: %v", err)
		}
		cmd.Stdin = pr
		if err := cmd.Start(); err != nil {
			tt.Fatalf("HARNESS: %v", err)
		}
		pr.Close()
		if how == 3 {
			chunk = len(data) + 1
		}
		for off := 0; off < len(data); off += chunk {
			end := off + chunk
			if end > len(data) {
				end = len(data)
			}
			if _, err := pw.Write(data[off:end]); err != nil {
				break
			}
		}
		pw.Close()
		err = cmd.Wait()
		return stdout.String(), exitCode(err), crashed(err)
	}
	err := cmd.Run()
	return stdout.String(), exitCode(err), crashed(err)
}

func exitCode(err error) int {
	if err == nil {
		return 0
	}
	if ee, ok := err.(*exec.ExitError); ok {
		return ee.ExitCode()
	}
	return -2
}

func crashed(err error) bool {
	if ee, ok := err.(*exec.ExitError); ok {
		return ee.ExitCode() == 2 || ee.ExitCode() < 0 // Go runtime panic exits with 2; negative = signal
	}
	return false
}

func TestC20IO(t *testing.T) {
	w := rep.NewWorker(t, "C20", "iosim")
	defer w.Finish()
	srv = startServer(t)
	defer func() { srv.in.Close(); _ = srv.cmd.Wait() }()
	rapid.Check(t, func(rt *rapid.T) { runC20(rt, w, t) })
}
