module verifsim

go 1.21

require (
	github.com/CrowdStrike/csproto v0.0.0
	github.com/CrowdStrike/csproto/example v0.0.0
	github.com/gogo/protobuf v1.3.2
	github.com/golang/protobuf v1.5.4
	github.com/prometheus/client_model v0.0.0-20190812154241-14fe0d1b01d4
	google.golang.org/protobuf v1.36.4
	pgregory.net/rapid v1.3.0
)

replace github.com/CrowdStrike/csproto => ../repo

replace github.com/CrowdStrike/csproto/example => ../repo/example

replace google.golang.org/protobuf => ../protobuf
