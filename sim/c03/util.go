package c03

import "runtime/debug"

func stackOf() []byte { return debug.Stack() }
