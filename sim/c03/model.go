// Package c03 checks C03: the hand-written decoder is total and bounds-safe under arbitrary call
// histories over damaged buffers.
package c03

import (
	"errors"
	"fmt"
	"io"
	"runtime/metrics"

	"github.com/CrowdStrike/csproto"

	"verifsim/wirex"
)

// call kinds
const (
	kTag = iota
	kBool
	kString
	kBytes
	kUInt32
	kUInt64
	kInt32
	kInt64
	kSInt32
	kSInt64
	kFixed32
	kFixed64
	kFloat32
	kFloat64
	kPackedBool
	kPackedInt32
	kPackedInt64
	kPackedUint32
	kPackedUint64
	kPackedSint32
	kPackedSint64
	kPackedFixed32
	kPackedFixed64
	kPackedFloat32
	kPackedFloat64
	kNested
	kSkip
	kSeek
	kReset
	kSetMode
	kMore
	kOffset
	nKinds
)

var kindName = [...]string{"DecodeTag", "DecodeBool", "DecodeString", "DecodeBytes", "DecodeUInt32", "DecodeUInt64", "DecodeInt32", "DecodeInt64",
	"DecodeSInt32", "DecodeSInt64", "DecodeFixed32", "DecodeFixed64", "DecodeFloat32", "DecodeFloat64",
	"DecodePackedBool", "DecodePackedInt32", "DecodePackedInt64", "DecodePackedUint32", "DecodePackedUint64", "DecodePackedSint32", "DecodePackedSint64",
	"DecodePackedFixed32", "DecodePackedFixed64", "DecodePackedFloat32", "DecodePackedFloat64",
	"DecodeNested", "Skip", "Seek", "Reset", "SetMode", "More", "Offset"}

type call struct {
	kind    int
	tag     int   // Skip
	wt      int   // Skip
	off     int64 // Seek
	whence  int   // Seek
	fast    bool  // SetMode
	stubErr bool  // DecodeNested: the stub Unmarshaler fails
}

func (c call) String() string {
	switch c.kind {
	case kSkip:
		return fmt.Sprintf("Skip(%d,%d)", c.tag, c.wt)
	case kSeek:
		return fmt.Sprintf("Seek(%d,%d)", c.off, c.whence)
	case kSetMode:
		return fmt.Sprintf("SetMode(fast=%v)", c.fast)
	case kNested:
		return fmt.Sprintf("DecodeNested(stubErr=%v)", c.stubErr)
	}
	return kindName[c.kind]
}

var errStub = errors.New("stub unmarshaler failed on demand")

// stub records what DecodeNested handed to the nested message.
type stub struct {
	called bool
	got    []byte
	fail   bool
}

func (s *stub) Unmarshal(b []byte) error {
	s.called = true
	s.got = b
	if s.fail {
		return errStub
	}
	return nil
}

// outcome is everything a caller observes from one call.
type outcome struct {
	val      string
	err      error
	off      int
	retSlice []byte // slice results (bounds-checked against the input)
	stub     *stub
	panicked any
	stack    []byte
}

// model: length of the item the call would consume at rest (the bytes from the cursor to len), per
// the encoding specification. ok=false: no such item fits in rest. tooLong: the declared length
// exceeds the remaining input.
func itemLen(c call, rest []byte) (n int, ok bool, tooLong bool) {
	varint := func(b []byte) int { // length of the varint at b, 0 if none terminates within 10 bytes
		for i := 0; i < len(b) && i < 10; i++ {
			if b[i] < 0x80 {
				return i + 1
			}
		}
		return 0
	}
	lenDelim := func() (int, bool, bool) {
		l, k := wirex.ReadVarint(rest)
		if k == 0 {
			// over-long or unterminated length prefix: no item; if it is a terminated 10-byte varint the
			// value does not fit 64 bits, which is "too long" by any reading
			return 0, false, varint(rest) != 0
		}
		if l > uint64(len(rest)-k) {
			return 0, false, true
		}
		return k + int(l), true, false
	}
	switch c.kind {
	case kTag, kBool, kUInt32, kUInt64, kInt32, kInt64, kSInt32, kSInt64:
		k := varint(rest)
		return k, k > 0, false
	case kFixed32, kFloat32:
		return 4, len(rest) >= 4, false
	case kFixed64, kFloat64:
		return 8, len(rest) >= 8, false
	case kString, kBytes, kNested, kPackedBool, kPackedInt32, kPackedInt64, kPackedUint32, kPackedUint64, kPackedSint32, kPackedSint64,
		kPackedFixed32, kPackedFixed64, kPackedFloat32, kPackedFloat64:
		return lenDelim()
	case kSkip:
		switch c.wt {
		case wirex.Varint:
			k := varint(rest)
			return k, k > 0, false
		case wirex.Fixed64:
			return 8, len(rest) >= 8, false
		case wirex.Fixed32:
			return 4, len(rest) >= 4, false
		case wirex.Bytes:
			return lenDelim()
		}
		return 0, false, false
	}
	return 0, false, false
}

func do(d *csproto.Decoder, c call) (o outcome) {
	defer func() {
		if r := recover(); r != nil {
			o.panicked = r
			o.stack = stackOf()
		}
		o.off = d.Offset()
	}()
	switch c.kind {
	case kTag:
		t, w, err := d.DecodeTag()
		o.val, o.err = fmt.Sprintf("%d/%d", t, int(w)), err
	case kBool:
		v, err := d.DecodeBool()
		o.val, o.err = wirex.Digest(v), err
	case kString:
		v, err := d.DecodeString()
		o.val, o.err = wirex.Digest(v), err
	case kBytes:
		v, err := d.DecodeBytes()
		o.val, o.err, o.retSlice = wirex.Digest(v), err, v
	case kUInt32:
		v, err := d.DecodeUInt32()
		o.val, o.err = wirex.Digest(v), err
	case kUInt64:
		v, err := d.DecodeUInt64()
		o.val, o.err = wirex.Digest(v), err
	case kInt32:
		v, err := d.DecodeInt32()
		o.val, o.err = wirex.Digest(v), err
	case kInt64:
		v, err := d.DecodeInt64()
		o.val, o.err = wirex.Digest(v), err
	case kSInt32:
		v, err := d.DecodeSInt32()
		o.val, o.err = wirex.Digest(v), err
	case kSInt64:
		v, err := d.DecodeSInt64()
		o.val, o.err = wirex.Digest(v), err
	case kFixed32:
		v, err := d.DecodeFixed32()
		o.val, o.err = wirex.Digest(v), err
	case kFixed64:
		v, err := d.DecodeFixed64()
		o.val, o.err = wirex.Digest(v), err
	case kFloat32:
		v, err := d.DecodeFloat32()
		o.val, o.err = wirex.Digest(v), err
	case kFloat64:
		v, err := d.DecodeFloat64()
		o.val, o.err = wirex.Digest(v), err
	case kPackedBool:
		v, err := d.DecodePackedBool()
		o.val, o.err = wirex.Digest(v), err
	case kPackedInt32:
		v, err := d.DecodePackedInt32()
		o.val, o.err = wirex.Digest(v), err
	case kPackedInt64:
		v, err := d.DecodePackedInt64()
		o.val, o.err = wirex.Digest(v), err
	case kPackedUint32:
		v, err := d.DecodePackedUint32()
		o.val, o.err = wirex.Digest(v), err
	case kPackedUint64:
		v, err := d.DecodePackedUint64()
		o.val, o.err = wirex.Digest(v), err
	case kPackedSint32:
		v, err := d.DecodePackedSint32()
		o.val, o.err = wirex.Digest(v), err
	case kPackedSint64:
		v, err := d.DecodePackedSint64()
		o.val, o.err = wirex.Digest(v), err
	case kPackedFixed32:
		v, err := d.DecodePackedFixed32()
		o.val, o.err = wirex.Digest(v), err
	case kPackedFixed64:
		v, err := d.DecodePackedFixed64()
		o.val, o.err = wirex.Digest(v), err
	case kPackedFloat32:
		v, err := d.DecodePackedFloat32()
		o.val, o.err = wirex.Digest(v), err
	case kPackedFloat64:
		v, err := d.DecodePackedFloat64()
		o.val, o.err = wirex.Digest(v), err
	case kNested:
		s := &stub{fail: c.stubErr}
		o.stub = s
		o.err = d.DecodeNested(s)
		if s.called {
			o.val = wirex.Digest(s.got)
		}
	case kSkip:
		v, err := d.Skip(c.tag, csproto.WireType(c.wt))
		o.val, o.err, o.retSlice = wirex.Digest(v), err, v
	case kSeek:
		p, err := d.Seek(c.off, c.whence)
		o.val, o.err = fmt.Sprint(p), err
	case kReset:
		d.Reset()
	case kSetMode:
		if c.fast {
			d.SetMode(csproto.DecoderModeFast)
		} else {
			d.SetMode(csproto.DecoderModeSafe)
		}
		o.val = d.Mode().String()
	case kMore:
		o.val = fmt.Sprint(d.More())
	case kOffset:
		o.val = fmt.Sprint(d.Offset())
	}
	return o
}

var allocSample = []metrics.Sample{{Name: "/gc/heap/allocs:bytes"}}

func heapAllocs() uint64 {
	metrics.Read(allocSample)
	return allocSample[0].Value.Uint64()
}

// seekTarget is the position a successful Seek must establish.
func seekTarget(c call, cur, n int) (int64, bool) {
	switch c.whence {
	case io.SeekStart:
		return c.off, true
	case io.SeekCurrent:
		return int64(cur) + c.off, true
	case io.SeekEnd:
		return int64(n) + c.off, true
	}
	return 0, false
}
