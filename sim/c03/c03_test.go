package c03

import (
	"fmt"
	"io"
	"math"
	"runtime"
	"testing"
	"unsafe"

	"github.com/CrowdStrike/csproto"
	"pgregory.net/rapid"

	"verifsim/rep"
	"verifsim/wirex"
)

const tailLen = 24

type run struct {
	t       *rapid.T
	w       *rep.Worker
	buf     []byte // the logical input (len n)
	dA, dB  *csproto.Decoder
	viewA   []byte
	lastTag int
	lastWT  int
	haveTag bool
	dmgAt   int // offset of the damaged byte, -1 if none
	dmgKind string
	fired   bool
	okItems int
	errs    int
	items   []wirex.Item
	dB0     []byte
}

func genBuffer(t *rapid.T) (b []byte, dmgAt int, dmgKind string) {
	dmgAt = -1
	if rapid.IntRange(0, 3).Draw(t, "src") == 3 {
		// bytes from a wire-significant alphabet
		alpha := []byte{0x00, 0x01, 0x7f, 0x80, 0xff, 0x08, 0x09, 0x0a, 0x0b, 0x0c, 0x0d, 0x0e, 0x0f, 0x02, 0x04, 0x10, 0x12, 0x1a, 0x22}
		n := rapid.IntRange(0, 24).Draw(t, "alen")
		b = make([]byte, n)
		for i := range b {
			b[i] = alpha[rapid.IntRange(0, len(alpha)-1).Draw(t, "a")]
		}
		return b, -1, "alphabet"
	}
	recs := genRecs(t, 0)
	b, spans := wirex.Encode(recs)
	if len(b) == 0 {
		return b, -1, "valid"
	}
	switch rapid.IntRange(0, 7).Draw(t, "damage") {
	case 0, 1: // truncate, biased to land inside keys, length prefixes and payloads
		k := rapid.IntRange(0, len(b)-1).Draw(t, "trunc_at")
		if len(spans) > 0 && rapid.Bool().Draw(t, "trunc_inside") {
			sp := spans[rapid.IntRange(0, len(spans)-1).Draw(t, "trunc_span")]
			cands := []int{sp.KeyStart, sp.KeyEnd, sp.LenStart, sp.LenEnd, sp.PayStart, (sp.PayStart + sp.PayEnd) / 2, sp.PayEnd - 1}
			k = cands[rapid.IntRange(0, len(cands)-1).Draw(t, "trunc_pos")]
			if k < 0 {
				k = 0
			}
			if k >= len(b) {
				k = len(b) - 1
			}
		}
		return wirex.Truncate(b, k), k, wirex.FTruncate
	case 2, 3:
		i := rapid.IntRange(0, len(b)-1).Draw(t, "flip_at")
		return wirex.FlipBit(b, i, uint(rapid.IntRange(0, 7).Draw(t, "flip_bit"))), i, wirex.FBitFlip
	case 4, 5:
		var ld []wirex.Span
		for _, sp := range spans {
			if sp.WT == wirex.Bytes && sp.Depth == 0 {
				ld = append(ld, sp)
			}
		}
		if len(ld) == 0 {
			return b, -1, "valid"
		}
		sp := ld[rapid.IntRange(0, len(ld)-1).Draw(t, "len_which")]
		cur := uint64(sp.PayEnd - sp.PayStart)
		opts := []uint64{cur + 1, cur + 4, uint64(len(b)), uint64(len(b)) * 4, 1<<31 - 1, 1 << 31, 1<<32 + 5, 1 << 62, 1 << 63, math.MaxUint64, cur / 2,
			// the edges where "offset + length" or a narrowing conversion wraps, in multiples of the element sizes too
			math.MaxInt64, math.MaxInt64 - 3, math.MaxInt64 - 7, math.MaxInt64 - 15, math.MaxInt64 - uint64(len(b)), 1<<31 - 4, 1<<31 - 8, 1<<32 - 1, 1<<32 - 8, 1<<32 + cur,
			math.MaxUint64 - 1, math.MaxUint64 - 7, 1<<64 - 1<<31}
		nl := opts[rapid.IntRange(0, len(opts)-1).Draw(t, "len_to")]
		kind := wirex.FInflate
		if nl < cur {
			kind = wirex.FDeflate
		}
		return wirex.ReplaceLen(b, sp, nl), sp.LenStart, kind
	}
	return b, -1, "valid"
}

// field universe: 1 varint, 2 fixed64, 3 string, 4 nested, 5 fixed32, 6 packed varint, 7 packed fixed32,
// 8 packed fixed64, 9 bytes, plus a few large field numbers
func genRecs(t *rapid.T, depth int) []wirex.Rec {
	n := rapid.IntRange(0, 7).Draw(t, "nrec")
	recs := make([]wirex.Rec, 0, n)
	for i := 0; i < n; i++ {
		f := rapid.IntRange(1, 10).Draw(t, "field")
		r := wirex.Rec{Tag: f}
		if f == 10 {
			r.Tag = []int{15, 16, 2047, 2048, 1 << 20, 1<<29 - 1}[rapid.IntRange(0, 5).Draw(t, "bigtag")]
			f = rapid.IntRange(1, 9).Draw(t, "bigas")
		}
		u := func() uint64 {
			switch rapid.IntRange(0, 4).Draw(t, "ucls") {
			case 0:
				return uint64(rapid.IntRange(0, 127).Draw(t, "u7"))
			case 1:
				return uint64(rapid.IntRange(128, 1<<21).Draw(t, "u21"))
			case 2:
				return math.MaxUint64 - uint64(rapid.IntRange(0, 2).Draw(t, "neg"))
			case 3:
				return uint64(rapid.Uint32().Draw(t, "u32"))
			}
			return rapid.Uint64().Draw(t, "u64")
		}
		switch f {
		case 1:
			r.WT, r.U = wirex.Varint, u()
		case 2:
			r.WT, r.U = wirex.Fixed64, u()
		case 5:
			r.WT, r.U = wirex.Fixed32, u()&0xffffffff
		case 3, 9:
			r.WT = wirex.Bytes
			k := rapid.IntRange(0, 9).Draw(t, "nbytes")
			if k == 9 {
				k = rapid.IntRange(100, 300).Draw(t, "nbig")
			}
			r.B = make([]byte, k)
			for j := range r.B {
				r.B[j] = byte('a' + j%26)
			}
		case 4:
			r.WT = wirex.Bytes
			if depth < 2 {
				r.Sub = genRecs(t, depth+1)
				if r.Sub == nil {
					r.Sub = []wirex.Rec{}
				}
			}
		case 6:
			r.WT = wirex.Bytes
			for j, k := 0, rapid.IntRange(0, 5).Draw(t, "npk"); j < k; j++ {
				r.B = wirex.AppendVarint(r.B, u())
			}
		case 7:
			r.WT = wirex.Bytes
			for j, k := 0, rapid.IntRange(0, 4).Draw(t, "npk"); j < k; j++ {
				r.B = append(r.B, byte(j), 1, 2, 3)
			}
		case 8:
			r.WT = wirex.Bytes
			for j, k := 0, rapid.IntRange(0, 3).Draw(t, "npk"); j < k; j++ {
				r.B = append(r.B, byte(j), 1, 2, 3, 4, 5, 6, 7)
			}
		}
		recs = append(recs, r)
	}
	return recs
}

var kindNamePtr = func() []string { return append([]string(nil), kindName[:]...) }()

var byWT = map[int][]int{
	wirex.Varint:  {kBool, kUInt32, kUInt64, kInt32, kInt64, kSInt32, kSInt64, kSkip},
	wirex.Fixed64: {kFixed64, kFloat64, kSkip},
	wirex.Fixed32: {kFixed32, kFloat32, kSkip},
	wirex.Bytes: {kString, kBytes, kNested, kSkip, kPackedBool, kPackedInt32, kPackedInt64, kPackedUint32, kPackedUint64, kPackedSint32, kPackedSint64,
		kPackedFixed32, kPackedFixed64, kPackedFloat32, kPackedFloat64},
}

func (r *run) genCall(t *rapid.T) call {
	n := len(r.buf)
	var c call
	pickKind := rapid.IntRange(0, 9).Draw(t, "pick")
	switch {
	case r.haveTag && pickKind < 6 && byWT[r.lastWT] != nil:
		ks := byWT[r.lastWT]
		c.kind = ks[rapid.IntRange(0, len(ks)-1).Draw(t, "fitkind")]
	case !r.haveTag && pickKind < 5:
		c.kind = kTag
	default:
		c.kind = rapid.IntRange(0, nKinds-1).Draw(t, "kind")
	}
	switch c.kind {
	case kSkip:
		if r.haveTag && rapid.IntRange(0, 9).Draw(t, "skipfit") < 7 {
			c.tag, c.wt = r.lastTag, r.lastWT
		} else {
			c.tag = []int{0, 1, 15, 16, 2047, 2048, 1 << 28, 1<<29 - 1, -1, 3}[rapid.IntRange(0, 9).Draw(t, "skiptag")]
			c.wt = rapid.IntRange(0, 7).Draw(t, "skipwt")
		}
	case kSeek:
		c.whence = rapid.IntRange(0, 3).Draw(t, "whence")
		offs := []int64{0, 1, -1, 2, -2, int64(n), int64(n) + 1, -int64(n), -int64(n) - 1, int64(n / 2), math.MaxInt64, math.MinInt64, math.MaxInt32 + 1, math.MinInt32 - 1, 1 << 32}
		c.off = offs[rapid.IntRange(0, len(offs)-1).Draw(t, "seekoff")]
	case kSetMode:
		c.fast = rapid.Bool().Draw(t, "fast")
	case kNested:
		c.stubErr = rapid.IntRange(0, 4).Draw(t, "stubfail") == 0
	}
	return c
}

func (r *run) cursorClass(off int) string {
	switch {
	case off == 0:
		return "start"
	case off == len(r.buf):
		return "end"
	}
	for _, it := range r.items {
		if off == it.Start {
			return "key"
		}
		if off > it.Start && off < it.PayStart {
			return "inside-key-or-len"
		}
		if off >= it.PayStart && off < it.End {
			return "inside-payload"
		}
	}
	return "unparsed-region"
}

func errClass(err error) string {
	if err == nil {
		return "ok"
	}
	return "err"
}

func (r *run) step(t *rapid.T) {
	c := r.genCall(t)
	r.exec(c)
}

// exec performs one call on both twins and checks every invariant of the property.
func (r *run) exec(c call) {
	w := r.w
	n := len(r.buf)
	old := r.dA.Offset()
	modeBefore := r.dA.Mode()
	w.Step("@%d %v", old, c)
	w.WatchBegin(&kindNamePtr[c.kind])
	a0 := heapAllocs()
	oa := do(r.dA, c)
	alloc := heapAllocs() - a0
	ob := do(r.dB, c)
	w.WatchEnd()
	name := kindName[c.kind]
	if oa.panicked != nil {
		w.Violate(rep.PanicSig(name, oa.panicked, oa.stack), fmt.Sprintf("%v at offset %d of %d-byte input, call %v", oa.panicked, old, n, c))
		r.resync(old)
		return
	}
	if ob.panicked != nil {
		w.Violate(rep.PanicSig(name, ob.panicked, ob.stack), fmt.Sprintf("%v (poisoned-tail twin only) at offset %d of %d-byte input, call %v", ob.panicked, old, n, c))
		r.resync(old)
		return
	}
	w.Note("-> %s %v off=%d", oa.val, oa.err, oa.off)
	// (b) cursor within [0, len]
	if oa.off < 0 || oa.off > n {
		w.Violate("cursor-out-of-bounds|"+name, fmt.Sprintf("%v at offset %d: cursor is now %d, input has %d bytes (err=%v)", c, old, oa.off, n, oa.err))
		r.resync(old)
		return
	}
	rest := r.buf[old:]
	// (f) poisoned tail: the two runs differ only in bytes beyond len(input)
	if oa.val != ob.val || oa.off != ob.off || (oa.err == nil) != (ob.err == nil) || (oa.err != nil && oa.err.Error() != ob.err.Error()) {
		w.Violate("reads-past-len|"+name, fmt.Sprintf("%v at offset %d of %d: tail 0x00 gives (%s,%v,off %d), tail 0xff gives (%s,%v,off %d)", c, old, n, oa.val, oa.err, oa.off, ob.val, ob.err, ob.off))
	}
	// (e) allocation in proportion to the input. The runtime accounts small allocations per span
	// refill, so one reading can be off by tens of KiB: a suspicious reading is confirmed by repeating
	// the same call from the same state on fresh decoders and taking the minimum.
	limit := uint64(64*n + 256<<10)
	// (a reading tens of MiB over the limit is no accounting noise, and repeating a huge allocation could
	// exhaust the worker's address space before the violation is reported)
	for rep := 0; rep < 3 && alloc > limit && alloc < limit+(32<<20); rep++ {
		d := csproto.NewDecoder(r.viewA)
		_, _ = d.Seek(int64(old), io.SeekStart)
		d.SetMode(modeBefore)
		var m0, m1 runtime.MemStats
		runtime.ReadMemStats(&m0) // exact, stop-the-world counter for the confirmation
		_ = do(d, c)
		runtime.ReadMemStats(&m1)
		if a := m1.TotalAlloc - m0.TotalAlloc; a < alloc {
			alloc = a
		}
	}
	if alloc > limit {
		w.Violate("alloc-out-of-proportion|"+name, fmt.Sprintf("%v at offset %d of %d-byte input allocated %d bytes (limit %d)", c, old, n, alloc, limit))
	}
	il, fits, tooLong := itemLen(c, rest)
	switch c.kind {
	case kSeek:
		if oa.err == nil {
			tgt, ok := seekTarget(c, old, n)
			if !ok || tgt < 0 || tgt > int64(n) || int64(oa.off) != tgt {
				w.Violate("seek-position|Seek", fmt.Sprintf("%v from %d succeeded with cursor %d; requested position %d valid=%v, input %d bytes", c, old, oa.off, tgt, ok, n))
			}
		}
	case kReset:
		if oa.off != 0 {
			w.Violate("reset-position|Reset", fmt.Sprintf("cursor %d after Reset", oa.off))
		}
	case kSetMode, kMore, kOffset:
		if oa.off != old {
			w.Violate("cursor-moved|"+name, fmt.Sprintf("%v moved the cursor from %d to %d", c, old, oa.off))
		}
		if c.kind == kMore && oa.val != fmt.Sprint(old < n) {
			w.Violate("more-wrong|More", fmt.Sprintf("More()=%s at offset %d of %d", oa.val, old, n))
		}
		if c.kind == kOffset && oa.val != fmt.Sprint(old) {
			w.Violate("offset-wrong|Offset", fmt.Sprintf("Offset()=%s, cursor %d", oa.val, old))
		}
	default:
		// item-consuming calls
		if tooLong && oa.err == nil {
			w.Violate("accepted-overlong-length|"+name, fmt.Sprintf("%v at offset %d: declared length exceeds the %d remaining bytes but no error was reported (cursor %d)", c, old, len(rest), oa.off))
		}
		if c.kind == kNested && oa.stub != nil && oa.stub.called && (tooLong || !fits) {
			w.Violate("nested-invoked-without-item|DecodeNested", fmt.Sprintf("at offset %d: nested decoder was invoked although no complete length-delimited item fits in the %d remaining bytes", old, len(rest)))
		}
		if oa.err == nil {
			r.okItems++
			if !fits {
				w.Violate("advance-mismatch|"+name, fmt.Sprintf("%v at offset %d succeeded (cursor %d) but no complete item of that kind fits in the %d remaining bytes", c, old, oa.off, len(rest)))
			} else if oa.off != old+il {
				w.Violate("advance-mismatch|"+name, fmt.Sprintf("%v at offset %d succeeded and moved the cursor to %d; the item is %d bytes long (expected cursor %d)", c, old, oa.off, il, old+il))
			}
			if c.kind == kNested && oa.stub != nil && fits {
				l, k := wirex.ReadVarint(rest)
				if !oa.stub.called || string(oa.stub.got) != string(rest[k:k+int(l)]) {
					w.Violate("nested-payload-wrong|DecodeNested", fmt.Sprintf("at offset %d: nested decoder got %x, payload is %x", old, oa.stub.got, rest[k:k+int(l)]))
				}
			}
		} else {
			r.errs++
			if c.kind == kNested && c.stubErr && oa.stub != nil && oa.stub.called && oa.err != errStub {
				// the stub's own error must come back (errors.Is would also accept wrapping)
				if !isErr(oa.err, errStub) {
					w.Violate("nested-error-lost|DecodeNested", fmt.Sprintf("stub failed with %v, DecodeNested returned %v", errStub, oa.err))
				}
			}
		}
		// slices handed back must either lie inside input[0:len] or not share memory with the input's
		// array at all (a copy)
		if oa.retSlice != nil && len(oa.retSlice) > 0 {
			full := r.viewA[:cap(r.viewA)]
			base := uintptr(unsafe.Pointer(&full[0]))
			p := uintptr(unsafe.Pointer(&oa.retSlice[0]))
			if p >= base && p < base+uintptr(len(full)) {
				if x := int(p - base); x+len(oa.retSlice) > n {
					w.Violate("slice-outside-input|"+name, fmt.Sprintf("%v at offset %d returned a %d-byte slice starting at %d of the input's array; the input has %d bytes", c, old, len(oa.retSlice), x, n))
				}
			}
		}
	}
	// fault reach: the call's reading window covered the damaged byte
	if r.dmgAt >= 0 && !r.fired && old <= r.dmgAt && (oa.err != nil || oa.off > r.dmgAt) {
		r.fired = true
		w.Fault(r.dmgKind)
	}
	// bookkeeping for the next draw
	r.haveTag = false
	if c.kind == kTag && oa.err == nil {
		var tg, wt int
		fmt.Sscanf(oa.val, "%d/%d", &tg, &wt)
		r.lastTag, r.lastWT, r.haveTag = tg, wt, true
	}
	mode := r.dA.Mode().String()
	w.State(fmt.Sprintf("%s|%s|%s|%s", mode, r.cursorClass(oa.off), name, errClass(oa.err)))
	if w.Pending() != "" && oa.off != ob.off {
		r.resync(oa.off)
	}
}

func isErr(err, target error) bool {
	for err != nil {
		if err == target {
			return true
		}
		u, ok := err.(interface{ Unwrap() error })
		if !ok {
			return false
		}
		err = u.Unwrap()
	}
	return false
}

// resync puts both twins at a common, valid position after a (known) finding so the history can go on.
func (r *run) resync(off int) {
	if off < 0 || off > len(r.buf) {
		off = 0
	}
	r.dA = csproto.NewDecoder(r.viewA)
	r.dB = csproto.NewDecoder(r.dB0)
	_, _ = r.dA.Seek(int64(off), io.SeekStart)
	_, _ = r.dB.Seek(int64(off), io.SeekStart)
	r.haveTag = false
}

func newRun(t *rapid.T, w *rep.Worker, buf []byte, dmgAt int, dmgKind string) *run {
	n := len(buf)
	arrA := make([]byte, n+tailLen)
	arrB := make([]byte, n+tailLen)
	copy(arrA, buf)
	copy(arrB, buf)
	for i := n; i < n+tailLen; i++ {
		arrA[i] = 0x00
		arrB[i] = 0xff
	}
	r := &run{t: t, w: w, buf: buf, viewA: arrA[:n], dmgAt: dmgAt, dmgKind: dmgKind}
	r.dB0 = arrB[:n]
	r.dA = csproto.NewDecoder(r.viewA)
	r.dB = csproto.NewDecoder(r.dB0)
	r.items, _, _ = wirex.Walk(buf)
	return r
}

func runC03(t *rapid.T, w *rep.Worker) {
	buf, dmgAt, dmgKind := genBuffer(t)
	r := newRun(t, w, buf, dmgAt, dmgKind)
	start := 0
	if len(buf) > 0 && rapid.IntRange(0, 3).Draw(t, "startoff") == 0 {
		start = rapid.IntRange(0, len(buf)).Draw(t, "start")
	}
	w.Begin(fmt.Sprintf("input=%x (%d bytes, %s@%d) start=%d", buf, len(buf), dmgKind, dmgAt, start))
	w.MixS(string(buf))
	if start > 0 {
		r.resync(start)
	}
	if rapid.Bool().Draw(t, "fastmode") {
		r.exec(call{kind: kSetMode, fast: true})
	}
	t.Repeat(map[string]func(*rapid.T){
		"call": r.step,
		"": func(t *rapid.T) {
			if sig := w.Pending(); sig != "" {
				t.Fatalf("%s", sig)
			}
		},
	})
	if r.okItems > 0 && (r.errs > 0 || r.fired) {
		w.EndNontrivial()
	}
	w.Probes["calls_ok"] += int64(r.okItems)
	w.Probes["calls_err"] += int64(r.errs)
}

func TestC03Hist(t *testing.T) {
	w := rep.NewWorker(t, "C03", "hist")
	defer w.Finish()
	rapid.Check(t, func(rt *rapid.T) { runC03(rt, w) })
}
