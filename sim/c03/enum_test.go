package c03

import (
	"fmt"
	"os"
	"strconv"
	"testing"

	"verifsim/rep"
	"verifsim/wirex"
)

// seedMessages is the fixed set of valid messages whose every truncation and every single-bit flip
// is enumerated. It covers every field shape of the decoder's universe.
func seedMessages() [][]wirex.Rec {
	pk := func(vs ...uint64) []byte {
		var b []byte
		for _, v := range vs {
			b = wirex.AppendVarint(b, v)
		}
		return b
	}
	nested := []wirex.Rec{{Tag: 1, WT: wirex.Varint, U: 150}, {Tag: 3, WT: wirex.Bytes, B: []byte("in")}}
	return [][]wirex.Rec{
		{{Tag: 1, WT: wirex.Varint, U: 1}},
		{{Tag: 1, WT: wirex.Varint, U: 300}},
		{{Tag: 1, WT: wirex.Varint, U: ^uint64(0)}},
		{{Tag: 2, WT: wirex.Fixed64, U: 0x0102030405060708}},
		{{Tag: 5, WT: wirex.Fixed32, U: 0x01020304}},
		{{Tag: 3, WT: wirex.Bytes, B: []byte("hello")}},
		{{Tag: 3, WT: wirex.Bytes, B: []byte{}}},
		{{Tag: 9, WT: wirex.Bytes, B: []byte{0xff, 0x00, 0x80}}},
		{{Tag: 4, WT: wirex.Bytes, Sub: nested}},
		{{Tag: 4, WT: wirex.Bytes, Sub: []wirex.Rec{}}},
		{{Tag: 6, WT: wirex.Bytes, B: pk(1, 2, 300)}},
		{{Tag: 6, WT: wirex.Bytes, B: pk(^uint64(0), 0)}},
		{{Tag: 7, WT: wirex.Bytes, B: []byte{1, 0, 0, 0, 2, 0, 0, 0}}},
		{{Tag: 8, WT: wirex.Bytes, B: []byte{1, 0, 0, 0, 0, 0, 0, 0, 2, 0, 0, 0, 0, 0, 0, 0}}},
		{{Tag: 16, WT: wirex.Varint, U: 7}},
		{{Tag: 2048, WT: wirex.Fixed32, U: 9}},
		{{Tag: 1<<29 - 1, WT: wirex.Varint, U: 1}},
		{{Tag: 1, WT: wirex.Varint, U: 5}, {Tag: 3, WT: wirex.Bytes, B: []byte("ab")}, {Tag: 5, WT: wirex.Fixed32, U: 77}},
		{{Tag: 2, WT: wirex.Fixed64, U: 1}, {Tag: 2, WT: wirex.Fixed64, U: 2}},
		{{Tag: 4, WT: wirex.Bytes, Sub: nested}, {Tag: 4, WT: wirex.Bytes, Sub: nested}},
		{{Tag: 7, WT: wirex.Bytes, B: []byte{0, 0, 128, 63}}, {Tag: 1, WT: wirex.Varint, U: 0}},
		{{Tag: 8, WT: wirex.Bytes, B: []byte{0, 0, 0, 0, 0, 0, 240, 63}}, {Tag: 9, WT: wirex.Bytes, B: []byte("z")}},
		{{Tag: 3, WT: wirex.Bytes, B: make([]byte, 130)}},
		{{Tag: 6, WT: wirex.Bytes, B: pk(1)}, {Tag: 6, WT: wirex.Bytes, B: pk(2, 3)}, {Tag: 1, WT: wirex.Varint, U: 1 << 40}},
	}
}

// TestC03Enum enumerates, for every seed message, every truncation offset and every single-bit flip;
// for each damaged buffer, every decoder method (and Skip with every wire type) positioned at offset 0
// and at every field start of the original message, in both modes. Exhaustive for that set.
func TestC03Enum(t *testing.T) {
	w := rep.NewWorker(t, "C03", "enum")
	defer w.Finish()
	shard, _ := strconv.Atoi(os.Getenv("VERIF_SHARD"))
	nshards, _ := strconv.Atoi(os.Getenv("VERIF_NSHARDS"))
	if nshards <= 0 {
		nshards = 1
	}
	var calls []call
	for k := kTag; k <= kNested; k++ {
		calls = append(calls, call{kind: k})
	}
	calls = append(calls, call{kind: kNested, stubErr: true})
	bufIdx := 0
	ncalls := 0
	for mi, recs := range seedMessages() {
		orig, spans := wirex.Encode(recs)
		var starts []int
		starts = append(starts, 0)
		for _, sp := range spans {
			for _, p := range []int{sp.KeyStart, sp.KeyEnd, sp.LenEnd} {
				dup := false
				for _, q := range starts {
					dup = dup || q == p
				}
				if !dup {
					starts = append(starts, p)
				}
			}
		}
		type variant struct {
			b    []byte
			at   int
			kind string
		}
		var vars []variant
		vars = append(vars, variant{orig, -1, "valid"})
		for k := 0; k < len(orig); k++ {
			vars = append(vars, variant{wirex.Truncate(orig, k), k, wirex.FTruncate})
		}
		for i := 0; i < len(orig); i++ {
			for bit := uint(0); bit < 8; bit++ {
				vars = append(vars, variant{wirex.FlipBit(orig, i, bit), i, wirex.FBitFlip})
			}
		}
		for _, v := range vars {
			bufIdx++
			if bufIdx%nshards != shard {
				continue
			}
			w.Begin(fmt.Sprintf("seed message %d, %s@%d: %x", mi, v.kind, v.at, v.b))
			w.MixS(string(v.b))
			w.MixS(v.kind)
			fired := false
			for _, st := range starts {
				if st > len(v.b) {
					continue
				}
				for _, fast := range []bool{false, true} {
					all := calls
					// Skip with the key found in front of the cursor and with every wire type
					for wt := 0; wt < 6; wt++ {
						for _, tg := range []int{1, recs[0].Tag} {
							all = append(all, call{kind: kSkip, tag: tg, wt: wt})
						}
					}
					for _, c := range all {
						r := newRun(nil, w, v.b, v.at, v.kind)
						if st > 0 {
							r.resync(st)
						}
						if fast {
							r.exec(call{kind: kSetMode, fast: true})
						}
						r.exec(c)
						ncalls++
						fired = fired || r.fired
						if sig := w.Pending(); sig != "" {
							t.Fatalf("%s", sig)
						}
					}
				}
			}
			if v.at >= 0 && fired {
				w.EndNontrivial()
			}
		}
	}
	w.Probes["enumerated_calls"] += int64(ncalls)
	w.Extra["enumeration"] = "every truncation offset and single-bit flip of 24 seed messages x every method at every field start x {safe, fast}: exhaustive for this set"
}
