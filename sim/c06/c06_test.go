// Package c06 checks the one clause of C06 that depends on carried state: the result of the generated
// Unmarshal does not depend on what the destination message contained before the call.
package c06

import (
	"fmt"
	"reflect"
	"runtime/debug"
	"strings"
	"testing"

	"github.com/CrowdStrike/csproto"
	"pgregory.net/rapid"

	"verifsim/corpus"
	"verifsim/rep"
	"verifsim/wirex"
)

var opUnm = "generated Unmarshal"

type res struct {
	err   error
	pan   any
	stack []byte
}

func unmarshal(m any, b []byte, via int) (r res) {
	defer func() {
		if p := recover(); p != nil {
			if rep.IsChoicePanic(p) {
				panic(p)
			}
			r.pan, r.stack = p, debug.Stack()
		}
	}()
	if via == 0 {
		r.err = m.(corpus.FM).Unmarshal(b)
	} else {
		r.err = csproto.Unmarshal(b, m)
	}
	return
}

func marshal(m any) (b []byte, ok bool) {
	defer func() {
		if p := recover(); p != nil {
			if rep.IsChoicePanic(p) {
				panic(p)
			}
			ok = false
		}
	}()
	b, err := m.(corpus.FM).Marshal()
	return b, err == nil
}

func encodeDrawn(t *rapid.T, typ corpus.Type) []byte {
	m := typ.New()
	corpus.Populate(t, corpus.Wrap(m), 0)
	return corpus.Encode(corpus.Wrap(m))
}

// canaries: per corpus type, the first canonical encoding this process decoded successfully, with the
// digest it gave. Decoding it again later - after any number of other, also failing, decodes in this
// process - must give the same outcome: Unmarshal is a function of its input, not of the process's history.
type canary struct {
	b   []byte
	dig string
}

var canaries = map[string]canary{}

func checkCanary(w *rep.Worker, typ corpus.Type) {
	c, ok := canaries[typ.String()]
	if !ok {
		return
	}
	m := typ.New()
	r := unmarshal(m, c.b, 0)
	w.Probes["canary_redecodes"]++
	if r.pan != nil || r.err != nil {
		w.Step("canary of %s: the encoding %x decoded fine earlier in this process", typ, clip(c.b))
		w.Violate("unmarshal-outcome-depends-on-process-history", fmt.Sprintf("%s: %x was decoded successfully earlier in this process and is now rejected: err=%v panic=%v", typ, clip(c.b), r.err, r.pan))
		delete(canaries, typ.String())
		return
	}
	if d := corpus.Digest(m); d != c.dig {
		w.Step("canary of %s", typ)
		w.Violate("unmarshal-outcome-depends-on-process-history", fmt.Sprintf("%s: %x decoded to %.150s earlier in this process and to %.150s now", typ, clip(c.b), c.dig, d))
		delete(canaries, typ.String())
	}
}

func runC06(t *rapid.T, w *rep.Worker) {
	typ := corpus.All[rapid.IntRange(0, len(corpus.All)-1).Draw(t, "type")]
	w.Begin(fmt.Sprintf("type=%s runtime=%s", typ, typ.Runtime))
	w.MixS(typ.String())
	// the bytes to decode
	var b []byte
	switch rapid.IntRange(0, 5).Draw(t, "input") {
	case 0:
		b = nil // the zero-length encoding of the all-default message
	case 1:
		b = []byte{}
	default:
		b = encodeDrawn(t, typ)
	}
	w.MixS(string(b))
	// history that makes the destination dirty
	dirty := typ.New()
	nprefix := 0
	step := func(format string, a ...any) { nprefix++; w.Step(format, a...) }
	func() {
		defer func() {
			if p := recover(); p != nil {
				if rep.IsChoicePanic(p) {
					panic(p)
				}
				w.Probe("unjudged_failure_while_dirtying_destination")
				dirty = typ.New()
				corpus.Populate(t, corpus.Wrap(dirty), 0)
			}
		}()
		for i, n := 0, rapid.IntRange(1, 5).Draw(t, "nprefix"); i < n; i++ {
			switch rapid.IntRange(0, 6).Draw(t, "prefixop") {
			case 6:
				if rapid.IntRange(0, 31).Draw(t, "burst") == 0 {
					// a long run of failing decodes of one damaged input into scratch messages: whatever a decoder
					// counts, caches or pools across calls gets exercised well past the usual thresholds
					ob := encodeDrawn(t, typ)
					if len(ob) > 1 {
						ob = wirex.Truncate(ob, rapid.IntRange(1, len(ob)-1).Draw(t, "burstcut"))
					}
					n := []int{300, 11000, 70000}[rapid.IntRange(0, 2).Draw(t, "burstn")]
					scratch := typ.New()
					fails := 0
					for k := 0; k < n; k++ {
						if r := unmarshal(scratch, ob, 0); r.err != nil || r.pan != nil {
							fails++
						}
					}
					step("process: %d decodes of one damaged input into a scratch message (%d failed)", n, fails)
					w.Fault("burst_of_failing_decodes")
					break
				}
				if d := shareBackingArray(t, dirty); d != "" {
					step("destination: %s", d)
					w.Fault("destination_fields_share_storage")
				}
			case 0, 1:
				corpus.Populate(t, corpus.Wrap(dirty), 0)
				step("destination: populate -> %.120s", corpus.Digest(dirty))
			case 2:
				step("destination: mutate %s", corpus.Mutate(t, corpus.Wrap(dirty), 0))
			case 3:
				n := dirty.(corpus.FM).Size()
				_, _ = marshal(dirty)
				step("destination: Size/Marshal (size %d, cache now warm)", n)
			case 4:
				ob := encodeDrawn(t, typ)
				r := unmarshal(dirty, ob, 0)
				step("destination: earlier Unmarshal of %d other bytes err=%v", len(ob), r.err)
			case 5:
				ob := encodeDrawn(t, typ)
				if len(ob) > 1 {
					ob = wirex.Truncate(ob, rapid.IntRange(1, len(ob)-1).Draw(t, "cut"))
				}
				r := unmarshal(dirty, ob, 0)
				step("destination: earlier Unmarshal of damaged bytes err=%v panic=%v", r.err, r.pan != nil)
				w.Fault("failed_earlier_unmarshal")
			}
		}
	}()
	via := rapid.IntRange(0, 1).Draw(t, "via")
	fresh := typ.New()
	before := corpus.Digest(dirty)
	w.WatchBegin(&opUnm)
	rd := unmarshal(dirty, b, via)
	rf := unmarshal(fresh, b, via)
	w.WatchEnd()
	w.Step("Unmarshal(%d bytes %x) via %s into the dirty destination: err=%v; into a fresh one: err=%v", len(b), clip(b), []string{"generated method", "csproto.Unmarshal"}[via], rd.err, rf.err)
	switch {
	case rd.pan != nil && rf.pan != nil:
		w.Probe("unjudged: Unmarshal panics on these bytes for a fresh destination too (C08-class)")
	case rd.pan != nil:
		w.Violate(rep.PanicSig("Unmarshal(dirty destination)", rd.pan, rd.stack), fmt.Sprintf("%s: %v (a fresh destination does not panic)", typ, rd.pan))
	case rf.pan != nil:
		w.Violate(rep.PanicSig("Unmarshal(fresh destination only)", rf.pan, rf.stack), fmt.Sprintf("%s: %v", typ, rf.pan))
	case (rd.err == nil) != (rf.err == nil):
		w.Violate("unmarshal-error-depends-on-destination", fmt.Sprintf("%s: dirty destination err=%v, fresh destination err=%v", typ, rd.err, rf.err))
	case rd.err == nil:
		dd, df := corpus.Digest(dirty), corpus.Digest(fresh)
		if dd != df {
			w.Violate("unmarshal-result-depends-on-destination|"+emptiness(b), fmt.Sprintf("%s: destination held %.150s; decoding %x gives %.200s, a fresh destination gives %.200s", typ, before, clip(b), dd, df))
			break
		}
		mb, ok1 := marshal(dirty)
		fb, ok2 := marshal(fresh)
		if ok1 != ok2 || (ok1 && !corpus.EqualModuloMapOrder(corpus.Wrap(fresh).Descriptor(), mb, fb)) {
			w.Violate("marshal-after-unmarshal-depends-on-destination", fmt.Sprintf("%s: re-marshal gives %x (ok=%v) vs %x (ok=%v)", typ, clip(mb), ok1, clip(fb), ok2))
		}
	}
	if _, have := canaries[typ.String()]; !have && len(b) > 0 && rf.pan == nil && rf.err == nil {
		canaries[typ.String()] = canary{b: append([]byte{}, b...), dig: corpus.Digest(fresh)}
	}
	checkCanary(w, typ)
	w.Probes["judged_unmarshals"]++
	if nprefix > 0 {
		w.EndNontrivial()
	}
	w.State(typ.Runtime + "|" + emptiness(b))
	if sig := w.Pending(); sig != "" {
		t.Fatalf("%s", sig)
	}
}

func emptiness(b []byte) string {
	if len(b) == 0 {
		return "empty-input"
	}
	return "non-empty-input"
}

func clip(b []byte) []byte {
	if len(b) > 40 {
		return b[:40]
	}
	return b
}

// shareBackingArray makes two repeated fields of the same Go type in the destination's struct refer to one
// backing array with spare capacity (legal, if unusual: a program may fill both from one slice). A decoder
// that re-uses the destination's storage instead of replacing it then lets one field overwrite the other.
func shareBackingArray(t *rapid.T, m any) string {
	rv := reflect.ValueOf(m)
	if rv.Kind() != reflect.Pointer || rv.Elem().Kind() != reflect.Struct {
		return ""
	}
	st := rv.Elem()
	byType := map[reflect.Type][]int{}
	var order []reflect.Type
	for i := 0; i < st.NumField(); i++ {
		f := st.Type().Field(i)
		if !f.IsExported() || f.Type.Kind() != reflect.Slice || f.Type.Elem().Kind() == reflect.Uint8 || strings.HasPrefix(f.Name, "XXX_") {
			continue
		}
		if _, ok := byType[f.Type]; !ok {
			order = append(order, f.Type)
		}
		byType[f.Type] = append(byType[f.Type], i)
	}
	var cands []reflect.Type
	for _, ty := range order {
		if len(byType[ty]) >= 2 {
			cands = append(cands, ty)
		}
	}
	if len(cands) == 0 {
		return ""
	}
	ty := cands[rapid.IntRange(0, len(cands)-1).Draw(t, "sharetype")]
	idx := byType[ty]
	a := idx[rapid.IntRange(0, len(idx)-1).Draw(t, "sharea")]
	b := idx[rapid.IntRange(0, len(idx)-1).Draw(t, "shareb")]
	if a == b {
		b = idx[(rapid.IntRange(0, len(idx)-2).Draw(t, "shareb2")+1+indexOf(idx, a))%len(idx)]
	}
	n := rapid.IntRange(0, 3).Draw(t, "sharelen")
	shared := reflect.MakeSlice(ty, n, n+8)
	st.Field(a).Set(shared)
	st.Field(b).Set(shared)
	return fmt.Sprintf("fields %s and %s now share one backing array (len %d, cap %d)", st.Type().Field(a).Name, st.Type().Field(b).Name, n, n+8)
}

func indexOf(xs []int, x int) int {
	for i, v := range xs {
		if v == x {
			return i
		}
	}
	return 0
}

func TestC06Hist(t *testing.T) {
	w := rep.NewWorker(t, "C06", "hist")
	defer w.Finish()
	rapid.Check(t, func(rt *rapid.T) { runC06(rt, w) })
}
