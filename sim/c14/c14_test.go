// Package c14 checks C14: pooled lazy-decode results are isolated across reuse.
//
// One lazyproto.Decoder per run, drawn options, its sync.Pools replaced by the seeded pool model;
// a drawn history of Decode / accessor / NestedResult(s) / Range / FieldData / Close operations and
// pool faults. Oracle: the same observation on a result of a pristine decoder (same definition and
// options, pool always empty) over the same input; no panic; in safe mode every value handed out
// stays intact after every later step.
package c14

import (
	"fmt"
	"runtime/debug"
	"testing"

	"github.com/CrowdStrike/csproto/lazyproto"
	"pgregory.net/rapid"

	"verifsim/lazysim"
	"verifsim/rep"
	"verifsim/simpool"
	"verifsim/wirex"
)

type chooser struct{ t *rapid.T }

func (c chooser) Intn(n int, label string) int { return rapid.IntRange(0, n-1).Draw(c.t, label) }

type handle struct {
	id    int
	input int
	res   *lazyproto.DecodeResult
	path  []lazysim.Nav
	top   int // id of the owning top-level handle (== id for top-level)
}

type retained struct {
	val   any
	dig   string
	desc  string
	owner int
}

type sim struct {
	t      *rapid.T
	w      *rep.Worker
	opts   lazysim.Options
	def    lazyproto.Def
	dec    *lazyproto.Decoder
	model  *simpool.Model
	inputs [][]byte
	descs  []string
	live   []*handle
	stale  []*handle // nested handles whose top-level result has been closed (only Close may still be called on them)
	nextID int
	kept   []retained
	judged int
	dead   bool // decoder retired after a known finding
}

func (s *sim) call(op string, f func()) (panicked bool) {
	defer func() {
		if r := recover(); r != nil {
			if rep.IsChoicePanic(r) {
				panic(r)
			}
			panicked = true
			sig := rep.PanicSig(op, r, debug.Stack())
			s.w.Violate(sig, fmt.Sprintf("%v", r))
		}
	}()
	opName := op
	s.w.WatchBegin(&opName)
	f()
	s.w.WatchEnd()
	return false
}

// pristine runs f against a result of a brand-new decoder over input i, with every pool empty.
func (s *sim) pristine(i int, path []lazysim.Nav, f func(r *lazyproto.DecodeResult, navErr string, decErr error)) {
	s.model.Pristine = true
	defer func() { s.model.Pristine = false }()
	s.call("pristine", func() {
		pd, err := lazyproto.NewDecoder(s.def, s.opts.Build()...)
		if err != nil {
			panic("pristine NewDecoder failed: " + err.Error())
		}
		pr, err := pd.Decode(s.inputs[i])
		if err != nil || pr == nil {
			f(nil, "decode", err)
			return
		}
		r, navErr := lazysim.Navigate(pr, path)
		f(r, navErr, nil)
		_ = pr.Close()
	})
}

func (s *sim) pick() *handle {
	if len(s.live) == 0 {
		return nil
	}
	return s.live[rapid.IntRange(0, len(s.live)-1).Draw(s.t, "handle")]
}

func (s *sim) tag() int {
	all := []int{1, 2, 3, 4, 5, 6, 7, 200, -3, 9}
	return all[rapid.IntRange(0, len(all)-1).Draw(s.t, "qtag")]
}

func (s *sim) dropTop(top int) {
	out := s.live[:0]
	for _, h := range s.live {
		if h.top != top {
			out = append(out, h)
		} else if h.id != top && len(s.stale) < 8 {
			s.stale = append(s.stale, h)
		}
	}
	s.live = out
}

// opCloseStale calls Close on a nested handle after its top-level result was closed. Close on a nested result is
// documented to have no effect, whenever it is called: it must not hand the object (which is back in its pool,
// or already serving a later decode) to the pool again.
func (s *sim) opCloseStale(t *rapid.T) {
	if len(s.stale) == 0 {
		return
	}
	i := rapid.IntRange(0, len(s.stale)-1).Draw(t, "stale")
	h := s.stale[i]
	s.stale = append(s.stale[:i], s.stale[i+1:]...)
	puts0 := s.model.S.Puts
	s.w.Step("#%d%v.Close (nested handle of a result that is already closed)", h.id, h.path)
	var err error
	if s.call("Close(stale nested)", func() { err = h.res.Close() }) {
		return
	}
	s.w.Probe("close_on_stale_nested_handle")
	s.judged++
	if err != nil {
		s.w.Violate("close-returned-error", err.Error())
	}
	if n := s.model.S.Puts - puts0; n > 0 {
		s.w.Violate("close-on-nested-handle-put-object-into-pool", fmt.Sprintf("#%d%v.Close after its top-level result was closed handed %d object(s) to a pool; Close on a nested result is documented to have no effect", h.id, h.path, n))
	}
}

func (s *sim) opDecode(t *rapid.T) {
	if len(s.live) >= 8 {
		return // enough live results; a no-op step
	}
	i := rapid.IntRange(0, len(s.inputs)-1).Draw(t, "input")
	var res *lazyproto.DecodeResult
	var err error
	hits0 := s.model.S.Hits
	s.w.Step("Decode(input %d %s)", i, s.descs[i])
	if s.call("Decode", func() { res, err = s.dec.Decode(s.inputs[i]) }) {
		return
	}
	if s.model.S.Hits > hits0 {
		s.w.Probe("decode_on_recycled_object")
	}
	var perr error
	var pnil bool
	s.pristine(i, nil, func(r *lazyproto.DecodeResult, navErr string, decErr error) { perr, pnil = decErr, r == nil })
	got, want := lazysim.ErrClass(err), lazysim.ErrClass(perr)
	s.judged++
	if got != want || (res == nil) != pnil {
		s.w.Violate("decode-differs-from-pristine", fmt.Sprintf("input %d: reused decoder err=%q nil=%v, pristine err=%q nil=%v", i, got, res == nil, want, pnil))
		return
	}
	if err != nil {
		s.w.Probe("decode_error_path")
		return
	}
	if res == nil {
		return
	}
	h := &handle{id: s.nextID, input: i, res: res}
	h.top = h.id
	s.nextID++
	s.live = append(s.live, h)
	s.w.Note("-> result #%d", h.id)
}

func (s *sim) opAccess(t *rapid.T) {
	h := s.pick()
	if h == nil {
		s.opDecode(t)
		return
	}
	tag := s.tag()
	a := lazysim.Accessors[rapid.IntRange(0, len(lazysim.Accessors)-1).Draw(t, "accessor")]
	if c := lazysim.Compatible(tag); c != nil && rapid.IntRange(0, 3).Draw(t, "fit") != 0 {
		a = lazysim.Accessors[c[rapid.IntRange(0, len(c)-1).Draw(t, "fitacc")]]
	}
	viaFD := rapid.IntRange(0, 3).Draw(t, "viafd") == 0
	var got lazysim.Outcome
	var val any
	s.w.Step("#%d%v.%s(%d) viaFD=%v", h.id, h.path, a.Name, tag, viaFD)
	if s.call("accessor", func() { got, val = lazysim.Observe(h.res, a, tag, viaFD) }) {
		return
	}
	var want lazysim.Outcome
	wantNav := ""
	s.pristine(h.input, h.path, func(r *lazyproto.DecodeResult, navErr string, decErr error) {
		wantNav = navErr
		if r != nil {
			want, _ = lazysim.Observe(r, a, tag, viaFD)
		}
	})
	s.judged++
	if wantNav != "ok" {
		s.w.Violate("pristine-navigation-differs", fmt.Sprintf("handle #%d path %v: pristine navigation gave %s", h.id, h.path, wantNav))
		return
	}
	if got != want {
		s.w.Violate("accessor-differs-from-pristine", fmt.Sprintf("#%d%v.%s(%d): reused=%v pristine=%v", h.id, h.path, a.Name, tag, got, want))
		return
	}
	s.w.Note("= %v", got)
	if got.Err == "ok" {
		s.w.Probe("accessor_value_ok")
		if !s.opts.Fast {
			s.keep(val, got.Val, fmt.Sprintf("#%d%v.%s(%d)", h.id, h.path, a.Name, tag), h.top)
		}
	}
}

func (s *sim) keep(val any, dig, desc string, owner int) {
	r := retained{val: val, dig: dig, desc: desc, owner: owner}
	if len(s.kept) < 48 {
		s.kept = append(s.kept, r)
	} else {
		s.kept[s.judged%48] = r
	}
}

func (s *sim) opNested(t *rapid.T) {
	h := s.pick()
	if h == nil {
		s.opDecode(t)
		return
	}
	if len(h.path) >= 3 || len(s.live) >= 14 {
		return
	}
	tag := 3
	if rapid.IntRange(0, 5).Draw(t, "oddtag") == 0 {
		tag = s.tag()
	}
	multi := rapid.Bool().Draw(t, "multi")
	var one *lazyproto.DecodeResult
	var many []*lazyproto.DecodeResult
	var err error
	hits0 := s.model.S.Hits
	s.w.Step("#%d%v.Nested(tag %d, multi=%v)", h.id, h.path, tag, multi)
	if s.call("Nested", func() {
		if multi {
			many, err = h.res.NestedResults(tag)
		} else {
			one, err = h.res.NestedResult(tag)
		}
	}) {
		return
	}
	if s.model.S.Hits > hits0 {
		s.w.Probe("nested_on_recycled_object")
	}
	n := len(many)
	if one != nil {
		n = 1
	}
	var perr error
	pn := 0
	s.pristine(h.input, h.path, func(r *lazyproto.DecodeResult, navErr string, decErr error) {
		if r == nil {
			perr = fmt.Errorf("pristine navigation: %s", navErr)
			return
		}
		if multi {
			var rs []*lazyproto.DecodeResult
			rs, perr = r.NestedResults(tag)
			pn = len(rs)
		} else {
			var x *lazyproto.DecodeResult
			x, perr = r.NestedResult(tag)
			if x != nil {
				pn = 1
			}
		}
	})
	s.judged++
	got, want := lazysim.ErrClass(err), lazysim.ErrClass(perr)
	if got != want || n != pn {
		s.w.Violate("nested-differs-from-pristine", fmt.Sprintf("#%d%v tag %d multi=%v: reused err=%q n=%d, pristine err=%q n=%d", h.id, h.path, tag, multi, got, n, want, pn))
		return
	}
	if err != nil {
		s.w.Probe("nested_error_path")
		return
	}
	add := func(r *lazyproto.DecodeResult, nav lazysim.Nav) {
		if r == nil {
			return
		}
		nh := &handle{id: s.nextID, input: h.input, res: r, top: h.top}
		nh.path = append(append([]lazysim.Nav(nil), h.path...), nav)
		s.nextID++
		s.live = append(s.live, nh)
		s.w.Note("-> nested #%d", nh.id)
	}
	if multi {
		if n > 0 {
			k := rapid.IntRange(0, n-1).Draw(t, "which")
			add(many[k], lazysim.Nav{Tag: tag, Multi: true, Idx: k})
			if n > 1 {
				s.w.Probe("nested_results_multi")
			}
		}
	} else {
		add(one, lazysim.Nav{Tag: tag})
	}
}

func (s *sim) opRange(t *rapid.T) {
	h := s.pick()
	if h == nil {
		s.opDecode(t)
		return
	}
	var got, want string
	s.w.Step("#%d%v.Range", h.id, h.path)
	if s.call("Range", func() { got = lazysim.RangeOutcome(h.res) }) {
		return
	}
	s.pristine(h.input, h.path, func(r *lazyproto.DecodeResult, navErr string, decErr error) {
		if r != nil {
			want = lazysim.RangeOutcome(r)
		} else {
			want = "nav:" + navErr
		}
	})
	s.judged++
	if got != want {
		s.w.Violate("range-differs-from-pristine", fmt.Sprintf("#%d%v: reused=%s pristine=%s", h.id, h.path, got, want))
	}
}

func (s *sim) opFieldDataPath(t *rapid.T) {
	h := s.pick()
	if h == nil {
		s.opDecode(t)
		return
	}
	n := rapid.IntRange(0, 4).Draw(t, "pathlen")
	path := make([]int, n)
	for i := range path {
		if i < n-1 && rapid.IntRange(0, 4).Draw(t, "p3") != 0 {
			path[i] = 3
		} else {
			path[i] = s.tag()
		}
	}
	a := lazysim.Accessors[rapid.IntRange(0, len(lazysim.Accessors)-1).Draw(t, "accessor")]
	obs := func(r *lazyproto.DecodeResult) lazysim.Outcome {
		fd, err := r.FieldData(path...)
		if err != nil {
			return lazysim.Outcome{Err: "fd:" + lazysim.ErrClass(err)}
		}
		v, err := a.FD(fd)
		return lazysim.Outcome{Val: wirex.Digest(v), Err: lazysim.ErrClass(err)}
	}
	var got, want lazysim.Outcome
	s.w.Step("#%d%v.FieldData(%v).%s", h.id, h.path, path, a.Name)
	if s.call("FieldData", func() { got = obs(h.res) }) {
		return
	}
	s.pristine(h.input, h.path, func(r *lazyproto.DecodeResult, navErr string, decErr error) {
		if r != nil {
			want = obs(r)
		} else {
			want = lazysim.Outcome{Err: "nav:" + navErr}
		}
	})
	s.judged++
	if got != want {
		s.w.Violate("fielddata-differs-from-pristine", fmt.Sprintf("#%d%v.FieldData(%v).%s: reused=%v pristine=%v", h.id, h.path, path, a.Name, got, want))
	}
}

func (s *sim) opClose(t *rapid.T) {
	h := s.pick()
	if h == nil {
		s.opDecode(t)
		return
	}
	s.w.Step("#%d%v.Close", h.id, h.path)
	var err error
	panicked := s.call("Close", func() { err = h.res.Close() })
	if h.top != h.id {
		// documented no-op on nested results: the handle stays usable
		s.w.Probe("close_on_nested")
		if panicked {
			s.dropTop(h.top)
		}
		return
	}
	s.dropTop(h.id)
	if panicked {
		return
	}
	if err != nil {
		s.w.Violate("close-returned-error", err.Error())
	}
}

func (s *sim) opGC(t *rapid.T) {
	n := s.model.GCClear()
	s.w.Step("pool fault: gc_clear (dropped %d stored objects)", n)
	if n > 0 {
		s.w.Fault("gc_clear")
	}
}

func (s *sim) check(t *rapid.T) {
	if !s.opts.Fast {
		for _, k := range s.kept {
			if d := wirex.Digest(k.val); d != k.dig {
				s.w.Violate("safe-mode-value-changed-later", fmt.Sprintf("%s was %s, now %s", k.desc, k.dig, d))
				break
			}
		}
	}
	occ := s.model.Occupancy()
	o0 := 0
	if len(occ) > 0 {
		o0 = occ[0]
		if o0 > 2 {
			o0 = 2
		}
	}
	lv := len(s.live)
	if lv > 3 {
		lv = 3
	}
	s.w.State(fmt.Sprintf("%s|pol=%s|occ0=%d|pools=%d|live=%d", s.opts, s.model.Cfg.Policy, o0, len(occ), lv))
	if sig := s.w.Pending(); sig != "" {
		t.Fatalf("%s", sig)
	}
}

func damage(t *rapid.T, b []byte, spans []wirex.Span) ([]byte, string) {
	if len(b) == 0 {
		return b, "valid"
	}
	switch rapid.IntRange(0, 11).Draw(t, "damage") {
	case 3, 4:
		// corrupt the inside of a nested message while the outer framing stays valid, so that the
		// top-level decode succeeds and a nested decode fails half-way
		var inner []wirex.Span
		for _, sp := range spans {
			if sp.Depth >= 1 {
				inner = append(inner, sp)
			}
		}
		if len(inner) == 0 {
			return b, "valid"
		}
		sp := inner[rapid.IntRange(0, len(inner)-1).Draw(t, "inner_which")]
		c := append([]byte(nil), b...)
		kind := rapid.IntRange(0, 2).Draw(t, "inner_kind")
		switch kind {
		case 0:
			c[sp.KeyStart] = c[sp.KeyStart]&^7 | 7 // unsupported wire type
		case 1:
			c[sp.KeyStart] = 0x80 // key varint runs into the payload
		default:
			c[sp.KeyStart] = 0 // field number 0
		}
		return c, fmt.Sprintf("nested-corrupt@%d(depth %d, kind %d)", sp.KeyStart, sp.Depth, kind)
	case 0:
		k := rapid.IntRange(0, len(b)-1).Draw(t, "trunc_at")
		return wirex.Truncate(b, k), fmt.Sprintf("truncated@%d", k)
	case 1:
		i := rapid.IntRange(0, len(b)-1).Draw(t, "flip_at")
		bit := rapid.IntRange(0, 7).Draw(t, "flip_bit")
		return wirex.FlipBit(b, i, uint(bit)), fmt.Sprintf("bitflip@%d.%d", i, bit)
	case 2:
		var ld []wirex.Span
		for _, sp := range spans {
			if sp.WT == wirex.Bytes {
				ld = append(ld, sp)
			}
		}
		if len(ld) == 0 {
			return b, "valid"
		}
		sp := ld[rapid.IntRange(0, len(ld)-1).Draw(t, "inflate_which")]
		nl := []uint64{uint64(sp.PayEnd-sp.PayStart) + 1, uint64(len(b)), 1<<31 - 1, 1 << 31, 1 << 63}[rapid.IntRange(0, 4).Draw(t, "inflate_to")]
		return wirex.ReplaceLen(b, sp, nl), fmt.Sprintf("len@%d:=%d", sp.LenStart, nl)
	}
	return b, "valid"
}

func runC14(t *rapid.T, w *rep.Worker) {
	s := &sim{t: t, w: w}
	s.opts = lazysim.GenOptions(t)
	s.def = lazysim.GenDef(t, 0)
	cfg := simpool.Config{
		Policy:        simpool.Policy(rapid.IntRange(0, int(simpool.NPolicies)-1).Draw(t, "policy")),
		DropOnPutPct:  []int{0, 0, 25, 60}[rapid.IntRange(0, 3).Draw(t, "droppct")],
		ForcedMissPct: []int{0, 0, 20}[rapid.IntRange(0, 2).Draw(t, "misspct")],
	}
	s.model = simpool.New(cfg, chooser{t})
	simpool.Current = s.model
	nin := rapid.IntRange(2, 6).Draw(t, "ninputs")
	for i := 0; i < nin; i++ {
		recs := lazysim.GenMsg(t, 0, 10, 0, "msg")
		b, spans := wirex.Encode(recs)
		b, d := damage(t, b, spans)
		s.inputs = append(s.inputs, b)
		s.descs = append(s.descs, fmt.Sprintf("%dB %s", len(b), d))
	}
	w.Begin(fmt.Sprintf("%s def=%s pool={%s drop=%d%% miss=%d%%} inputs=%v", s.opts, lazysim.DefString(s.def), cfg.Policy, cfg.DropOnPutPct, cfg.ForcedMissPct, s.descs))
	w.MixS(fmt.Sprintf("%s|%s|%v", s.opts, lazysim.DefString(s.def), cfg))
	for _, in := range s.inputs {
		w.MixS(string(in))
	}
	var err error
	if s.call("NewDecoder", func() { s.dec, err = lazyproto.NewDecoder(s.def, s.opts.Build()...) }) || err != nil {
		if err != nil {
			w.Violate("newdecoder-rejected-valid-definition", err.Error())
		}
		if sig := w.Pending(); sig != "" {
			t.Fatalf("%s", sig)
		}
		return
	}
	fc0 := lazysim.FilterCalls.Load()
	actions := map[string]func(*rapid.T){
		"":           s.check,
		"decode":     s.opDecode,
		"decode2":    s.opDecode,
		"access":     s.opAccess,
		"access2":    s.opAccess,
		"nested":     s.opNested,
		"range":      s.opRange,
		"fielddata":  s.opFieldDataPath,
		"close":      s.opClose,
		"close2":     s.opClose,
		"closestale": s.opCloseStale,
		"gc_clear":   s.opGC,
	}
	// swarm: each run disables a drawn subset of the optional operation kinds
	for _, k := range []string{"range", "fielddata", "gc_clear", "nested", "access2", "decode2", "close2"} {
		if rapid.IntRange(0, 3).Draw(t, "swarm_"+k) == 0 {
			delete(actions, k)
		}
	}
	t.Repeat(actions)

	st := s.model.S
	w.Faults["drop_on_put"] += int64(st.DroppedPuts)
	w.Faults["forced_miss"] += int64(st.ForcedMisses)
	w.Probes["pool_get"] += int64(st.Gets)
	w.Probes["pool_put"] += int64(st.Puts)
	w.Probes["pool_hit"] += int64(st.Hits)
	w.Probes["pool_double_put"] += int64(st.DoublePuts)
	w.Probes["pool_foreign_put"] += int64(st.RecycledAcrossPools)
	w.Probes["filter_calls"] += lazysim.FilterCalls.Load() - fc0
	w.Probes["judged_observations"] += int64(s.judged)
	if st.Hits > 0 && s.judged > 0 {
		w.EndNontrivial()
	}
}

func TestC14Hist(t *testing.T) {
	w := rep.NewWorker(t, "C14", "hist")
	defer w.Finish()
	rapid.Check(t, func(rt *rapid.T) { runC14(rt, w) })
}
