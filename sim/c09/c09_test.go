// Package c09 checks C09: Marshal output depends only on the message's current contents (history
// part), and concurrent Size/Marshal on an unmutated message are race-free and correct (schedule part).
package c09

import (
	"fmt"
	"runtime/debug"
	"testing"

	"github.com/CrowdStrike/csproto"
	gogoproto "github.com/gogo/protobuf/proto"
	gogodesc "github.com/gogo/protobuf/protoc-gen-gogo/descriptor"
	gogotypes "github.com/gogo/protobuf/types"
	golangproto "github.com/golang/protobuf/proto" //nolint
	promv1 "github.com/prometheus/client_model/go"
	"google.golang.org/protobuf/proto"
	"google.golang.org/protobuf/runtime/protoimpl"
	"google.golang.org/protobuf/types/descriptorpb"
	"google.golang.org/protobuf/types/known/structpb"
	"google.golang.org/protobuf/types/known/timestamppb"
	"pgregory.net/rapid"

	"verifsim/coop"
	"verifsim/corpus"
	"verifsim/rep"
)

var active *coop.Sched

func init() {
	csproto.VerifYield = func(where string) {
		if s := active; s != nil {
			s.Yield(where)
		}
	}
	// scheduling points inside the protobuf-go runtime (before its size-cache atomics)
	protoimpl.VerifSetYield(func(where string) {
		if s := active; s != nil {
			s.Yield(where)
		}
	})
}

// marshalling operations that the property judges
const (
	opGenMarshal = iota
	opGenMarshalTo
	opCsMarshal
	opRtMarshal
	opGenMarshalToPresized
	nMarshalOps
)

var opNames = []string{"generated.Marshal", "generated.MarshalTo(make(Size()))", "csproto.Marshal", "runtime.Marshal", "generated.MarshalTo(buffer sized by the caller, no Size call)"}

// plain types: no generated fast-marshal methods; csproto only dispatches to the owning runtime
var plainTypes = []corpus.Type{
	{Pkg: "plain", Name: "timestamppb.Timestamp", Runtime: "googlev2", New: func() any { return &timestamppb.Timestamp{} }},
	{Pkg: "plain", Name: "structpb.Struct", Runtime: "googlev2", New: func() any { return &structpb.Struct{} }},
	{Pkg: "plain", Name: "descriptorpb.DescriptorProto", Runtime: "googlev2", New: func() any { return &descriptorpb.DescriptorProto{} }},
	{Pkg: "plain", Name: "descriptorpb.FileDescriptorProto", Runtime: "googlev2", New: func() any { return &descriptorpb.FileDescriptorProto{} }},
	{Pkg: "plain", Name: "gogo types.Timestamp", Runtime: "gogo", New: func() any { return &gogotypes.Timestamp{} }},
	{Pkg: "plain", Name: "gogo descriptor.DescriptorProto", Runtime: "gogo", New: func() any { return &gogodesc.DescriptorProto{} }},
	{Pkg: "plain", Name: "prometheus.Metric", Runtime: "golang-v1", New: func() any { return &promv1.Metric{} }},
}

func isFast(m any) bool { _, ok := m.(corpus.FM); return ok }

type result struct {
	b     []byte
	err   error
	slack int // MarshalTo: bytes of the buffer not accounted for
	panic any
	stack []byte
}

func rtMarshal(m any) ([]byte, error) {
	if corpus.IsGogo(m) {
		return gogoproto.Marshal(m.(gogoproto.Message))
	}
	if pm, ok := m.(proto.Message); ok {
		return proto.MarshalOptions{AllowPartial: false}.Marshal(pm)
	}
	return golangproto.Marshal(m.(golangproto.Message))
}

func rtSize(m any) int {
	if corpus.IsGogo(m) {
		return gogoproto.Size(m.(gogoproto.Message))
	}
	if pm, ok := m.(proto.Message); ok {
		return proto.Size(pm)
	}
	return golangproto.Size(m.(golangproto.Message))
}

// presize is the buffer size used by opGenMarshalToPresized (set by the caller from a fresh copy).
var presize int

// bufFill is what the caller's buffer holds when it is handed to MarshalTo: a buffer that was used before is not
// zeroed. The reference marshal of the fresh copy always gets a zeroed buffer.
var bufFill byte

func dirty(buf []byte) []byte {
	if bufFill != 0 {
		for i := range buf {
			buf[i] = bufFill
		}
	}
	return buf
}

func doMarshal(op int, m any) (r result) {
	defer func() {
		if p := recover(); p != nil {
			if rep.IsChoicePanic(p) {
				panic(p)
			}
			r.panic, r.stack = p, debug.Stack()
		}
	}()
	fm, fast := m.(corpus.FM)
	if !fast && (op == opGenMarshal || op == opGenMarshalTo || op == opGenMarshalToPresized) {
		op = opCsMarshal // plain types have no generated methods
	}
	switch op {
	case opGenMarshal:
		r.b, r.err = fm.Marshal()
	case opGenMarshalTo:
		n := fm.Size()
		buf := dirty(make([]byte, n))
		r.err = fm.MarshalTo(buf)
		r.b = buf
	case opGenMarshalToPresized:
		// the caller knows the size already (here: from a fresh copy) and does not call Size on this object
		n := presize
		buf := dirty(make([]byte, n))
		r.err = fm.MarshalTo(buf)
		r.b = buf
	case opCsMarshal:
		r.b, r.err = csproto.Marshal(m)
	case opRtMarshal:
		r.b, r.err = rtMarshal(m)
	}
	return r
}

type hist struct {
	t      *rapid.T
	w      *rep.Worker
	typ    corpus.Type
	m      any
	saved  [][]byte
	judged int
	warm   int // judged marshals performed while some cache was warm
	prior  int // operations before the current one (mutations, sizes, marshals, unmarshals)
	hist   int // judged marshals that had a non-empty history before them
}

func (h *hist) unjudged(what string, f func()) {
	defer func() {
		if p := recover(); p != nil {
			if rep.IsChoicePanic(p) {
				panic(p)
			}
			h.w.Probe("unjudged_failure:" + what)
			h.w.Note("unjudged panic in %s (not a Marshal call): %v; object retired", what, p)
			h.m = corpus.FreshCopy(h.m)
		}
	}()
	f()
}

func (h *hist) opMutate(t *rapid.T) {
	h.unjudged("mutate", func() {
		d := corpus.Mutate(t, corpus.Wrap(h.m), 0)
		h.prior++
		h.w.Step("mutate: %s", d)
	})
}

func (h *hist) opSize(t *rapid.T) {
	k := rapid.IntRange(0, 2).Draw(t, "sizer")
	h.unjudged("size", func() {
		var n int
		if k == 0 && !isFast(h.m) {
			k = 1
		}
		switch k {
		case 0:
			n = h.m.(corpus.FM).Size()
		case 1:
			n = csproto.Size(h.m)
		default:
			n = rtSize(h.m)
		}
		h.w.Step("%s -> %d", []string{"generated.Size", "csproto.Size", "runtime.Size"}[k], n)
	})
}

func (h *hist) opMarshal(t *rapid.T) {
	op := rapid.IntRange(0, nMarshalOps-1).Draw(t, "marshalop")
	cache0, _ := corpus.SizeCache(h.m)
	stale := corpus.StaleCaches(h.m)
	fresh := corpus.FreshCopy(h.m)
	if op == opGenMarshalToPresized {
		presize = -1
		if f2, ok := corpus.FreshCopy(h.m).(corpus.FM); ok {
			func() {
				defer func() { _ = recover() }()
				presize = f2.Size()
			}()
		}
		if presize < 0 {
			op = opGenMarshal
		}
	}
	fill := []byte{0x00, 0xFF, 0x80, 0x01, 0xA5}[rapid.IntRange(0, 4).Draw(t, "bufferfill")]
	h.w.WatchBegin(&opNames[op])
	bufFill = fill
	got := doMarshal(op, h.m)
	bufFill = 0
	want := doMarshal(op, fresh)
	h.w.WatchEnd()
	if fill != 0 && (op == opGenMarshalTo || op == opGenMarshalToPresized) {
		h.w.Fault("marshalto_into_used_buffer")
	}
	h.judged++
	if cache0 > 0 {
		h.warm++
	}
	if h.prior > 0 {
		h.hist++
	}
	h.prior++
	h.w.Step("%s -> %d bytes err=%v (cache before=%d)", opNames[op], len(got.b), got.err, cache0)
	sig, detail := "", ""
	switch {
	case got.panic != nil && want.panic == nil:
		sig, detail = rep.PanicSig(opNames[op], got.panic, got.stack), fmt.Sprintf("%v (marshaling a fresh copy does not panic)", got.panic)
	case got.panic != nil:
		// the fresh copy panics too, so no history is needed for it - but "never panics" is part of the property
		sig, detail = rep.PanicSig(opNames[op]+"(fresh copy too)", got.panic, got.stack), fmt.Sprintf("%v for contents %.300s (a fresh copy panics as well)", got.panic, corpus.Digest(fresh))
		h.m = h.typ.New()
	case want.panic != nil:
		sig, detail = rep.PanicSig(opNames[op]+"(fresh copy only)", want.panic, want.stack), fmt.Sprintf("the fresh copy panics (%v) but the history object does not", want.panic)
	case (got.err == nil) != (want.err == nil):
		sig, detail = "marshal-error-differs-from-fresh-copy|"+opNames[op], fmt.Sprintf("history object: err=%v; fresh copy: err=%v", got.err, want.err)
	case got.err == nil && !corpus.EqualModuloMapOrder(corpus.Wrap(h.m).Descriptor(), got.b, want.b):
		sig, detail = "marshal-differs-from-fresh-copy|"+opNames[op], fmt.Sprintf("history object gives %d bytes %x, fresh copy gives %d bytes %x", len(got.b), clip(got.b), len(want.b), clip(want.b))
	}
	if sig != "" {
		if len(stale) > 0 {
			// root cause shown by reading the cache fields: a positive cached size that differs from the fresh size
			sig = "stale-size-cache|" + h.typ.Runtime
			detail = fmt.Sprintf("stale cached size on %v; %s: %s", stale, opNames[op], detail)
		}
		h.w.Violate(sig, fmt.Sprintf("%s: %s", h.typ, detail))
		h.m = fresh // retire the object, continue on a fresh copy of its contents
		if got.panic != nil && want.panic != nil {
			h.m = h.typ.New() // these contents cannot be marshaled at all
		}
		return
	}
	if got.err == nil && got.b != nil {
		if len(h.saved) < 6 {
			h.saved = append(h.saved, got.b)
		}
	}
}

func clip(b []byte) []byte {
	if len(b) > 48 {
		return b[:48]
	}
	return b
}

func (h *hist) opUnmarshal(t *rapid.T) {
	if len(h.saved) == 0 {
		return
	}
	b := h.saved[rapid.IntRange(0, len(h.saved)-1).Draw(t, "saved")]
	via := rapid.IntRange(0, 1).Draw(t, "unmvia")
	h.unjudged("unmarshal", func() {
		var err error
		if via == 0 && isFast(h.m) {
			err = h.m.(corpus.FM).Unmarshal(b)
		} else {
			err = csproto.Unmarshal(b, h.m)
		}
		h.w.Step("Unmarshal(%d saved bytes) via %s failed=%v", len(b), []string{"generated", "csproto"}[via], err != nil)
		if err != nil {
			// the saved bytes list map entries in the order one earlier Marshal happened to iterate them, so where a
			// failing decode stops - and what it leaves behind - is not a function of this execution's choices:
			// the object is retired (the error text, which carries a byte offset, is not logged either)
			h.w.Probe("unmarshal_of_own_marshal_output_failed(object retired)")
			h.m = h.typ.New()
		}
	})
}

func (h *hist) opReset(t *rapid.T) {
	h.unjudged("reset", func() {
		csproto.Reset(h.m)
		h.w.Step("csproto.Reset")
	})
}

func (h *hist) opClone(t *rapid.T) {
	h.unjudged("clone", func() {
		c := csproto.Clone(h.m)
		if c != nil && rapid.Bool().Draw(t, "useclone") {
			h.m = c
			h.w.Step("csproto.Clone; history continues on the clone")
		} else {
			h.w.Step("csproto.Clone (discarded)")
		}
	})
}

func pickType(t *rapid.T) corpus.Type {
	if rapid.IntRange(0, 4).Draw(t, "plaintype") == 0 {
		return plainTypes[rapid.IntRange(0, len(plainTypes)-1).Draw(t, "plain")]
	}
	return corpus.All[rapid.IntRange(0, len(corpus.All)-1).Draw(t, "type")]
}

func runHist(t *rapid.T, w *rep.Worker) {
	typ := pickType(t)
	h := &hist{t: t, w: w, typ: typ, m: typ.New()}
	w.Begin(fmt.Sprintf("type=%s runtime=%s", typ, typ.Runtime))
	w.MixS(typ.String())
	h.unjudged("populate", func() { corpus.Populate(t, corpus.Wrap(h.m), 0) })
	w.Note("initial contents: %.300s", corpus.Digest(h.m))
	t.Repeat(map[string]func(*rapid.T){
		"mutate":    h.opMutate,
		"mutate2":   h.opMutate,
		"size":      h.opSize,
		"marshal":   h.opMarshal,
		"marshal2":  h.opMarshal,
		"unmarshal": h.opUnmarshal,
		"reset":     h.opReset,
		"clone":     h.opClone,
		"": func(t *rapid.T) {
			c, _ := corpus.SizeCache(h.m)
			cs := "cold"
			if c > 0 {
				cs = "warm"
				if len(corpus.StaleCaches(h.m)) > 0 {
					cs = "warm-stale"
				}
			}
			w.State(fmt.Sprintf("%s|%s", typ.Runtime, cs))
			if sig := w.Pending(); sig != "" {
				t.Fatalf("%s", sig)
			}
		},
	})
	w.Probes["judged_marshals"] += int64(h.judged)
	w.Probes["judged_marshals_with_warm_cache"] += int64(h.warm)
	w.Probes["judged_marshals_with_history"] += int64(h.hist)
	if h.hist > 0 {
		w.EndNontrivial()
	}
}

func TestC09Hist(t *testing.T) {
	w := rep.NewWorker(t, "C09", "hist")
	defer w.Finish()
	rapid.Check(t, func(rt *rapid.T) { runHist(rt, w) })
}

// ---- concurrent part ----

type cobs struct {
	op  int
	res result
	n   int // for size ops
}

type cclient struct {
	script []int // ops: 0..nMarshalOps-1 marshal ops, then size ops, then opBystander
	obs    []cobs
	// a private message of another drawn type: the shared message's readers are not alone in the process, other
	// goroutines use csproto on their own messages meanwhile (opBystander)
	by      any
	byTyp   corpus.Type
	byWant  result
	byGot   []result
	byClass csproto.MessageType
	byBad   string
}

const (
	opGenSize = nMarshalOps + iota
	opCsSize
	opRtSize
	nAllOps
	opBystander = nAllOps // Marshal, MsgType and Clone of the client's private message
)

func runCoop(t *rapid.T, w *rep.Worker, maxClients int) {
	typ := pickType(t)
	m := typ.New()
	corpus.Populate(t, corpus.Wrap(m), 0)
	warm := rapid.IntRange(0, 2).Draw(t, "warm")
	nc := rapid.IntRange(2, maxClients).Draw(t, "nclients")
	clients := make([]*cclient, nc)
	for i := range clients {
		c := &cclient{}
		for k, n := 0, rapid.IntRange(1, 6).Draw(t, "nops"); k < n; k++ {
			c.script = append(c.script, rapid.IntRange(0, nAllOps).Draw(t, "op"))
		}
		c.byTyp = pickType(t)
		c.by = c.byTyp.New()
		if rapid.Bool().Draw(t, "bypopulate") {
			corpus.Populate(t, corpus.Wrap(c.by), 0)
		}
		c.byWant = doMarshal(opCsMarshal, corpus.FreshCopy(c.by))
		c.byClass = csproto.MsgType(corpus.FreshCopy(c.by))
		clients[i] = c
	}
	w.Begin(fmt.Sprintf("type=%s runtime=%s clients=%d initial-cache=%s race=%v", typ, typ.Runtime, nc, []string{"cold", "warmed by generated.Size", "warmed by runtime.Size"}[warm], coop.RaceBuild))
	w.MixS(typ.String() + corpus.Digest(m))
	for _, c := range clients {
		w.MixS(fmt.Sprint(c.script) + c.byTyp.String() + corpus.Digest(c.by))
	}
	// expected results from fresh copies, computed before anybody shares the message
	presize = 0
	func() {
		defer func() { _ = recover() }()
		if f2, ok := corpus.FreshCopy(m).(corpus.FM); ok {
			presize = f2.Size() // what a caller that knows the size passes to MarshalTo (opGenMarshalToPresized)
		}
	}()
	var want [nMarshalOps]result
	for op := 0; op < nMarshalOps; op++ {
		want[op] = doMarshal(op, corpus.FreshCopy(m))
	}
	var wantSize [nAllOps]int
	func() {
		defer func() { _ = recover() }()
		if isFast(m) {
			wantSize[opGenSize] = corpus.FreshCopy(m).(corpus.FM).Size()
		} else {
			wantSize[opGenSize] = csproto.Size(corpus.FreshCopy(m))
		}
		wantSize[opCsSize] = csproto.Size(corpus.FreshCopy(m))
		wantSize[opRtSize] = rtSize(corpus.FreshCopy(m))
	}()
	switch warm {
	case 1:
		if isFast(m) {
			_ = m.(corpus.FM).Size()
		} else {
			_ = csproto.Size(m)
		}
	case 2:
		_ = rtSize(m)
	}
	sched := coop.New(nc, nil)
	active = sched
	rw := coop.WatchRaces()
	sched.Run(func(cc *coop.Client) {
		c := clients[cc.ID]
		for _, op := range c.script {
			sched.Yield("api")
			if op == opBystander {
				if mt := csproto.MsgType(c.by); mt != c.byClass && c.byBad == "" {
					c.byBad = fmt.Sprintf("MsgType(%s) = %v while other goroutines marshal, %v before", c.byTyp, mt, c.byClass)
				}
				c.byGot = append(c.byGot, doMarshal(opCsMarshal, c.by))
				func() {
					defer func() { _ = recover() }()
					_ = csproto.Clone(c.by)
				}()
				continue
			}
			if op < nMarshalOps {
				c.obs = append(c.obs, cobs{op: op, res: doMarshal(op, m)})
				continue
			}
			o := cobs{op: op}
			func() {
				defer func() {
					if p := recover(); p != nil {
						o.res.panic, o.res.stack = p, debug.Stack()
					}
				}()
				switch op {
				case opGenSize:
					if isFast(m) {
						o.n = m.(corpus.FM).Size()
					} else {
						o.n = csproto.Size(m)
					}
				case opCsSize:
					o.n = csproto.Size(m)
				case opRtSize:
					o.n = rtSize(m)
				}
			}()
			c.obs = append(c.obs, o)
		}
	}, func(runnable []int) int { return rapid.IntRange(0, len(runnable)-1).Draw(t, "next") })
	active = nil
	w.StepsTot += int64(sched.Decisions)
	w.Sched(sched.Hash())
	w.Mix(sched.Hash())
	for _, cc := range sched.Clients() {
		if cc.Panic != nil {
			if rep.IsChoicePanic(cc.Panic) {
				panic(cc.Panic)
			}
			w.Violate(rep.PanicSig("client", cc.Panic, cc.PanicStack), fmt.Sprint(cc.Panic))
		}
	}
	if n, txt := rw.New(); n > 0 {
		sig, ok := coop.RaceSig(txt)
		if !ok {
			t.Fatalf("HARNESS: race report without any csproto frame (harness bug):\n%s", txt)
		}
		w.Step("race detector: %d report(s) with %d clients on %s", n, nc, typ)
		w.Violate(sig, firstLines(txt, 50))
		w.AttachRace(firstLines(txt, 80))
	}
	judged := 0
	md := corpus.Wrap(m).Descriptor()
	names := append(append([]string{}, opNames...), "generated.Size", "csproto.Size", "runtime.Size")
	for ci, c := range clients {
		for _, o := range c.obs {
			judged++
			if o.res.panic != nil {
				// (a fresh copy panicking as well changes nothing: "never panics" is part of the property)
				w.Step("client %d %s panicked", ci, names[o.op])
				w.Violate(rep.PanicSig(names[o.op], o.res.panic, o.res.stack), fmt.Sprint(o.res.panic))
				continue
			}
			if o.op >= nMarshalOps {
				if o.n != wantSize[o.op] {
					w.Step("client %d %s", ci, names[o.op])
					w.Violate("concurrent-size-wrong|"+names[o.op], fmt.Sprintf("%s: client %d got %d, the same call on a fresh copy gives %d", typ, ci, o.n, wantSize[o.op]))
				}
				continue
			}
			wr := want[o.op]
			if wr.panic != nil {
				w.Step("client %d %s", ci, names[o.op])
				w.Violate(rep.PanicSig(names[o.op]+"(fresh copy only)", wr.panic, wr.stack), "the fresh copy panics but the shared object does not")
				continue
			}
			if (o.res.err == nil) != (wr.err == nil) || (wr.err == nil && !corpus.EqualModuloMapOrder(md, o.res.b, wr.b)) {
				w.Step("client %d %s", ci, names[o.op])
				w.Violate("concurrent-marshal-differs-from-fresh-copy|"+names[o.op], fmt.Sprintf("%s: client %d got %d bytes err=%v, fresh copy gives %d bytes err=%v", typ, ci, len(o.res.b), o.res.err, len(wr.b), wr.err))
			}
		}
	}
	for ci, c := range clients {
		if c.byBad != "" {
			w.Violate("concurrent-classification-wrong", fmt.Sprintf("client %d: %s", ci, c.byBad))
		}
		bmd := corpus.Wrap(c.by).Descriptor()
		for _, g := range c.byGot {
			w.Probe("bystander_marshals")
			if g.panic != nil || c.byWant.panic != nil {
				if (g.panic != nil) != (c.byWant.panic != nil) {
					w.Violate("concurrent-bystander-marshal-panic-differs", fmt.Sprintf("client %d, private %s: panic=%v while other goroutines marshal, panic=%v alone", ci, c.byTyp, g.panic, c.byWant.panic))
				}
				continue
			}
			if (g.err == nil) != (c.byWant.err == nil) || (g.err == nil && !corpus.EqualModuloMapOrder(bmd, g.b, c.byWant.b)) {
				w.Violate("concurrent-bystander-marshal-differs", fmt.Sprintf("client %d, private %s: %d bytes err=%v while other goroutines marshal, %d bytes err=%v alone", ci, c.byTyp, len(g.b), g.err, len(c.byWant.b), c.byWant.err))
			}
		}
	}
	w.Probes["context_switches"] += int64(sched.Switches)
	w.Probes["judged_observations"] += int64(judged)
	for k, v := range sched.YieldKinds {
		w.Probes["yield:"+k] += int64(v)
	}
	w.State(fmt.Sprintf("%s|warm=%d|switches>0=%v", typ.Runtime, warm, sched.Switches > 0))
	if sched.Switches > 0 && judged > 1 {
		w.Note("%d clients, %d decisions, %d switches, schedule hash %x", nc, sched.Decisions, sched.Switches, sched.Hash())
		if w.WantDetail() {
			w.Note("schedule trace: %s", sched.TraceString())
		}
		w.EndNontrivial()
	}
	if sig := w.Pending(); sig != "" {
		t.Fatalf("%s", sig)
	}
}

func firstLines(s string, n int) string {
	k := 0
	for i := range s {
		if s[i] == '\n' {
			k++
			if k == n {
				return s[:i]
			}
		}
	}
	return s
}

func TestC09Coop(t *testing.T) {
	w := rep.NewWorker(t, "C09", "coop")
	defer w.Finish()
	mc := rep.ParamInt("max_clients", 4)
	rapid.Check(t, func(rt *rapid.T) { runCoop(rt, w, mc) })
}
