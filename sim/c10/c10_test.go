// Package c10 checks C10: safe-mode decoding never aliases the caller's buffer.
//
// A simulated receive path delivers frames into one reusable buffer; consumers decode from it and keep
// what they got; at drawn later instants the buffer is overwritten by the next frame, poisoned, shifted,
// or truncated and re-appended. A deep digest of every retained object, taken at hand-out time, is
// re-compared after every later event.
package c10

import (
	"fmt"
	"runtime/debug"
	"strings"
	"testing"

	"github.com/CrowdStrike/csproto"
	"github.com/CrowdStrike/csproto/lazyproto"
	"google.golang.org/protobuf/encoding/protowire"
	"pgregory.net/rapid"

	"verifsim/corpus"
	"verifsim/lazysim"
	"verifsim/rep"
	"verifsim/simpool"
	"verifsim/wirex"
)

// ---------- receive buffer ----------

type rxbuf struct {
	arr []byte // the reusable array
	n   int    // length of the frame currently in it
}

func (r *rxbuf) deliver(frame []byte) []byte {
	if cap(r.arr) < len(frame)+8 {
		na := make([]byte, len(frame)+64)
		r.arr = na
	}
	r.arr = r.arr[:cap(r.arr)]
	copy(r.arr, frame)
	r.n = len(frame)
	return r.arr[:r.n:r.n]
}

// fault applies one drawn buffer fault and returns its name.
func (r *rxbuf) fault(t *rapid.T, other []byte) string {
	full := r.arr[:cap(r.arr)]
	if len(full) == 0 {
		return "noop(no frame delivered yet)"
	}
	switch rapid.IntRange(0, 5).Draw(t, "bufault") {
	case 0:
		for i := range full {
			full[i] = 0x00
		}
		return "poison_00"
	case 1:
		for i := range full {
			full[i] = 0xff
		}
		return "poison_ff"
	case 2:
		for i := range full {
			full[i] = byte(i*131 + 17)
		}
		return "poison_pattern"
	case 3:
		copy(full[1:], full[:len(full)-1])
		return "shift_by_one"
	case 4:
		k := 0
		if r.n > 0 {
			k = rapid.IntRange(0, r.n).Draw(t, "trunc_to")
		}
		v := append(full[:k], other...) // same backing array while it fits
		_ = v
		return "truncate_and_reappend"
	default:
		copy(full, other)
		return "overwrite_with_next_frame"
	}
}

// ---------- generated Unmarshal ----------

type kept struct {
	m    any
	dig  string
	desc string
}

func encodeIndependently(m any) ([]byte, error) {
	// the harness's own descriptor-driven encoder: no csproto, generated or runtime marshal code involved
	return corpus.Encode(corpus.Wrap(m)), nil
}

func genFrame(t *rapid.T, typ corpus.Type) []byte {
	m := typ.New()
	corpus.Populate(t, corpus.Wrap(m), 0)
	b, err := encodeIndependently(m)
	if err != nil {
		return nil
	}
	// a record occurring twice (what concatenating two encodings gives: a repeated element twice, a singular
	// field where the last one wins, the same map key twice)
	if rapid.IntRange(0, 3).Draw(t, "duprecord") == 0 {
		if items, ok, _ := wirex.Walk(b); ok && len(items) > 0 {
			it := items[rapid.IntRange(0, len(items)-1).Draw(t, "dupwhich")]
			rec := append([]byte{}, b[it.Start:it.End]...)
			if rapid.Bool().Draw(t, "dupatend") {
				b = append(b, rec...)
			} else {
				b = append(append(append([]byte{}, b[:it.End]...), rec...), b[it.End:]...)
			}
		}
	}
	// unknown fields (numbers outside every example schema), of all four wire types, inserted at drawn
	// field boundaries (before, between and after the known fields)
	for k, n := 0, rapid.IntRange(0, 2).Draw(t, "nunknown"); k < n; k++ {
		num := protowire.Number(rapid.IntRange(900, 905).Draw(t, "unknum"))
		var u []byte
		switch rapid.IntRange(0, 3).Draw(t, "unkwt") {
		case 0:
			u = protowire.AppendTag(u, num, protowire.VarintType)
			u = protowire.AppendVarint(u, rapid.Uint64().Draw(t, "unkv"))
		case 1:
			u = protowire.AppendTag(u, num, protowire.Fixed32Type)
			u = protowire.AppendFixed32(u, 0xa1b2c3d4)
		case 2:
			u = protowire.AppendTag(u, num, protowire.Fixed64Type)
			u = protowire.AppendFixed64(u, 0xa1b2c3d4e5f60718)
		default:
			u = protowire.AppendTag(u, num, protowire.BytesType)
			u = protowire.AppendBytes(u, []byte("unknown-payload"))
		}
		cuts := []int{0, len(b)}
		if items, ok, _ := wirex.Walk(b); ok {
			for _, it := range items {
				cuts = append(cuts, it.Start)
			}
		}
		at := cuts[rapid.IntRange(0, len(cuts)-1).Draw(t, "unkat")]
		b = append(append(append([]byte{}, b[:at]...), u...), b[at:]...)
	}
	return b
}

// firstDiff names the kind of the first leaf whose digest changed (from the digest's own type letters).
func firstDiff(m any, before, after string) string {
	i := 0
	for i < len(before) && i < len(after) && before[i] == after[i] {
		i++
	}
	if k := strings.LastIndex(before[:min(i, len(before))], "unk:"); k >= 0 && !strings.ContainsAny(before[k:min(i, len(before))], " }") {
		return "unknown-fields"
	}
	for j := min(i, len(before)-1); j >= 0; j-- {
		switch before[j] {
		case 'y':
			return "bytes"
		case 's':
			return "string"
		case 'i', 'u', 'b', 'e', 'f', 'd':
			if j+1 < len(before) && (before[j+1] >= '0' && before[j+1] <= '9' || before[j+1] == '-' || before[j+1] == 't' || before[j+1] == 'f') {
				return "scalar"
			}
		}
		if before[j] == ':' || before[j] == '[' || before[j] == ',' || before[j] == '>' {
			break
		}
	}
	return "other"
}

func runGen(t *rapid.T, w *rep.Worker) {
	typ := corpus.All[rapid.IntRange(0, len(corpus.All)-1).Draw(t, "type")]
	nf := rapid.IntRange(2, 5).Draw(t, "nframes")
	var frames [][]byte
	for i := 0; i < nf; i++ {
		if f := genFrame(t, typ); len(f) > 0 {
			frames = append(frames, f)
		}
	}
	w.Begin(fmt.Sprintf("type=%s runtime=%s frames=%d", typ, typ.Runtime, len(frames)))
	w.MixS(typ.String())
	if len(frames) == 0 {
		return
	}
	for _, f := range frames {
		w.MixS(string(f))
	}
	rx := &rxbuf{}
	var keep []kept
	decoded, faults := 0, 0
	check := func(t *rapid.T) {
		for _, k := range keep {
			if d := corpus.Digest(k.m); d != k.dig {
				w.Violate("message-changed-after-buffer-reuse|"+typ.Runtime+"|"+firstDiff(k.m, k.dig, d),
					fmt.Sprintf("%s decoded from %s: digest was %.200s, now %.200s", typ, k.desc, k.dig, d))
				break
			}
		}
		if sig := w.Pending(); sig != "" {
			t.Fatalf("%s", sig)
		}
	}
	t.Repeat(map[string]func(*rapid.T){
		"": check,
		"deliver_and_decode": func(t *rapid.T) {
			i := rapid.IntRange(0, len(frames)-1).Draw(t, "frame")
			via := rapid.IntRange(0, 1).Draw(t, "via")
			view := rx.deliver(frames[i])
			m := typ.New()
			var err error
			func() {
				defer func() {
					if p := recover(); p != nil {
						if rep.IsChoicePanic(p) {
							panic(p)
						}
						err = fmt.Errorf("panic: %v", p)
						w.Probe("unjudged_unmarshal_panic")
					}
				}()
				if via == 0 {
					err = m.(corpus.FM).Unmarshal(view)
				} else {
					err = csproto.Unmarshal(view, m)
				}
			}()
			w.Step("deliver frame %d (%d bytes) and Unmarshal via %s: err=%v", i, len(view), []string{"generated method", "csproto.Unmarshal"}[via], err)
			if err != nil {
				w.Probe("unjudged_unmarshal_error")
				return
			}
			decoded++
			if len(keep) >= 6 {
				keep = keep[1:]
			}
			keep = append(keep, kept{m: m, dig: corpus.Digest(m), desc: fmt.Sprintf("frame %d", i)})
		},
		"buffer_fault": func(t *rapid.T) {
			other := frames[rapid.IntRange(0, len(frames)-1).Draw(t, "other")]
			name := rx.fault(t, other)
			w.Step("buffer fault: %s", name)
			if len(keep) > 0 {
				w.Fault(name)
				faults++
			}
		},
	})
	w.Probes["decoded_messages"] += int64(decoded)
	if decoded > 0 && faults > 0 {
		w.EndNontrivial()
	}
	w.State(typ.Runtime + "|" + typ.Syntax)
}

func TestC10Gen(t *testing.T) {
	w := rep.NewWorker(t, "C10", "gen")
	defer w.Finish()
	rapid.Check(t, func(rt *rapid.T) { runGen(rt, w) })
}

// ---------- lazyproto ----------

type lres struct {
	frame  int
	res    *lazyproto.DecodeResult
	val    lazyproto.DecodeResult // result of the deprecated Decode function (by value)
	path   []lazysim.Nav
	top    int
	id     int
	isFunc bool
}

func (l *lres) viaFunc(v bool) { l.isFunc = v }

type lkept struct {
	val  any
	dig  string
	desc string
}

type chooser struct{ t *rapid.T }

func (c chooser) Intn(n int, label string) int { return rapid.IntRange(0, n-1).Draw(c.t, label) }

func runLazy(t *rapid.T, w *rep.Worker) {
	fast := rapid.IntRange(0, 4).Draw(t, "fast") == 0 // opt-in mode: only "no panic" is judged
	opts := lazysim.GenOptions(t)
	opts.Fast = fast
	def := lazysim.GenDef(t, 0)
	model := simpool.New(simpool.Config{Policy: simpool.LIFO}, chooser{t})
	simpool.Current = model
	nf := rapid.IntRange(2, 4).Draw(t, "nframes")
	var frames [][]byte
	for i := 0; i < nf; i++ {
		b, _ := wirex.Encode(lazysim.GenMsg(t, 0, 8, uint64(i+1)*0x0101010101010101, "msg"))
		if len(b) == 0 {
			b, _ = wirex.Encode([]wirex.Rec{{Tag: 1, WT: wirex.Varint, U: uint64(i + 1)}})
		}
		frames = append(frames, b)
	}
	w.Begin(fmt.Sprintf("%s def=%s frames=%d", opts, lazysim.DefString(def), nf))
	w.MixS(fmt.Sprintf("%s|%s", opts, lazysim.DefString(def)))
	for _, f := range frames {
		w.MixS(string(f))
	}
	dec, err := lazyproto.NewDecoder(def, opts.Build()...)
	if err != nil {
		t.Fatalf("harness: NewDecoder: %v", err)
	}
	rx := &rxbuf{}
	var live []*lres
	var keep []lkept
	nextID, faults, judged := 0, 0, 0
	call := func(op string, f func()) (panicked bool) {
		defer func() {
			if p := recover(); p != nil {
				if rep.IsChoicePanic(p) {
					panic(p)
				}
				panicked = true
				w.Violate(rep.PanicSig(op, p, debug.Stack()), fmt.Sprint(p))
			}
		}()
		opName := op
		w.WatchBegin(&opName)
		f()
		w.WatchEnd()
		return false
	}
	// pristine observation on an untouched private copy of the frame
	pristine := func(fr int, path []lazysim.Nav, viaFunc bool, f func(r *lazyproto.DecodeResult) string) (out string) {
		model.Pristine = true
		defer func() { model.Pristine = false }()
		defer func() {
			if p := recover(); p != nil {
				if rep.IsChoicePanic(p) {
					panic(p)
				}
				out = fmt.Sprintf("pristine panicked: %v", p)
			}
		}()
		private := append([]byte(nil), frames[fr]...)
		var pr *lazyproto.DecodeResult
		if viaFunc {
			v, err := lazyproto.Decode(private, def)
			if err != nil {
				return "decode-error"
			}
			pr = &v
		} else {
			pd, _ := lazyproto.NewDecoder(def, opts.Build()...)
			r, err := pd.Decode(private)
			if err != nil || r == nil {
				return "decode-error"
			}
			pr = r
		}
		r, nav := lazysim.Navigate(pr, path)
		if r == nil {
			return "nav:" + nav
		}
		return f(r)
	}
	t.Repeat(map[string]func(*rapid.T){
		"": func(t *rapid.T) {
			if !fast {
				for _, k := range keep {
					if d := wirex.Digest(k.val); d != k.dig {
						w.Violate("lazy-value-changed-after-buffer-reuse", fmt.Sprintf("%s was %s, now %s", k.desc, k.dig, d))
						break
					}
				}
			}
			if sig := w.Pending(); sig != "" {
				t.Fatalf("%s", sig)
			}
		},
		"deliver_and_decode": func(t *rapid.T) {
			if len(live) >= 6 {
				return
			}
			i := rapid.IntRange(0, len(frames)-1).Draw(t, "frame")
			viaFunc := !fast && rapid.IntRange(0, 2).Draw(t, "entry") == 0
			view := rx.deliver(frames[i])
			lr := &lres{frame: i, id: nextID}
			lr.top = lr.id
			var err error
			if call("Decode", func() {
				if viaFunc {
					lr.val, err = lazyproto.Decode(view, def)
					lr.res = &lr.val
				} else {
					lr.res, err = dec.Decode(view)
				}
			}) {
				return
			}
			w.Step("deliver frame %d and decode via %s: err=%v", i, map[bool]string{true: "lazyproto.Decode", false: "Decoder.Decode"}[viaFunc], err)
			if err != nil || lr.res == nil {
				return
			}
			if viaFunc {
				lr.path = nil
			}
			nextID++
			live = append(live, lr)
			lr.viaFunc(viaFunc)
		},
		"access": func(t *rapid.T) {
			if len(live) == 0 {
				return
			}
			h := live[rapid.IntRange(0, len(live)-1).Draw(t, "handle")]
			tags := []int{1, 2, 3, 4, 5, 6, 7, 200, -3}
			tag := tags[rapid.IntRange(0, len(tags)-1).Draw(t, "tag")]
			a := lazysim.Accessors[rapid.IntRange(0, len(lazysim.Accessors)-1).Draw(t, "acc")]
			if c := lazysim.Compatible(tag); c != nil && rapid.IntRange(0, 3).Draw(t, "fit") != 0 {
				a = lazysim.Accessors[c[rapid.IntRange(0, len(c)-1).Draw(t, "fitacc")]]
			}
			viaFD := rapid.IntRange(0, 3).Draw(t, "viafd") == 0
			var got lazysim.Outcome
			var val any
			if call("accessor", func() { got, val = lazysim.Observe(h.res, a, tag, viaFD) }) {
				return
			}
			w.Step("#%d%v.%s(%d) = %v", h.id, h.path, a.Name, tag, got)
			if fast {
				return
			}
			// in safe mode the result must still show the frame as it was when it was decoded
			want := pristine(h.frame, h.path, h.isFunc, func(r *lazyproto.DecodeResult) string {
				o, _ := lazysim.Observe(r, a, tag, viaFD)
				return o.String()
			})
			judged++
			if got.String() != want {
				w.Violate("lazy-accessor-sees-reused-buffer", fmt.Sprintf("#%d%v.%s(%d) after %d buffer faults: got %v, the frame as delivered gives %s", h.id, h.path, a.Name, tag, faults, got, want))
				return
			}
			if got.Err == "ok" {
				if len(keep) >= 32 {
					keep = keep[1:]
				}
				keep = append(keep, lkept{val: val, dig: got.Val, desc: fmt.Sprintf("#%d%v.%s(%d)", h.id, h.path, a.Name, tag)})
			}
		},
		"nested": func(t *rapid.T) {
			if len(live) == 0 || len(live) >= 10 {
				return
			}
			h := live[rapid.IntRange(0, len(live)-1).Draw(t, "handle")]
			if len(h.path) >= 2 {
				return
			}
			var nr *lazyproto.DecodeResult
			var err error
			if call("NestedResult", func() { nr, err = h.res.NestedResult(3) }) {
				return
			}
			w.Step("#%d%v.NestedResult(3): err=%v", h.id, h.path, err != nil)
			if err != nil || nr == nil {
				return
			}
			nh := &lres{frame: h.frame, res: nr, top: h.top, id: nextID, isFunc: h.isFunc}
			nh.path = append(append([]lazysim.Nav(nil), h.path...), lazysim.Nav{Tag: 3})
			nextID++
			live = append(live, nh)
		},
		"buffer_fault": func(t *rapid.T) {
			other := frames[rapid.IntRange(0, len(frames)-1).Draw(t, "other")]
			name := rx.fault(t, other)
			w.Step("buffer fault: %s", name)
			if len(live) > 0 || len(keep) > 0 {
				w.Fault(name)
				faults++
			}
		},
		"close": func(t *rapid.T) {
			if len(live) == 0 {
				return
			}
			h := live[rapid.IntRange(0, len(live)-1).Draw(t, "handle")]
			if h.top != h.id {
				return
			}
			call("Close", func() { _ = h.res.Close() })
			w.Step("#%d.Close", h.id)
			out := live[:0]
			for _, x := range live {
				if x.top != h.id {
					out = append(out, x)
				}
			}
			live = out
		},
	})
	w.Probes["judged_accessor_calls_after_decode"] += int64(judged)
	if faults > 0 && (judged > 0 || len(keep) > 0) {
		w.EndNontrivial()
	}
	w.State(fmt.Sprintf("fast=%v", fast))
}

func TestC10Lazy(t *testing.T) {
	w := rep.NewWorker(t, "C10", "lazy")
	defer w.Finish()
	rapid.Check(t, func(rt *rapid.T) { runLazy(rt, w) })
}
