// Package c12 checks C12: extension accessors are coherent across operation histories on every runtime.
package c12

import (
	"strings"
	"encoding/hex"
	"errors"
	"fmt"
	"reflect"
	"runtime/debug"
	"sort"
	"testing"

	"github.com/CrowdStrike/csproto"
	p2gogo "github.com/CrowdStrike/csproto/example/proto2/gogo"
	p2v1 "github.com/CrowdStrike/csproto/example/proto2/googlev1"
	p2v2 "github.com/CrowdStrike/csproto/example/proto2/googlev2"
	"github.com/gogo/protobuf/gogoproto"
	gogo "github.com/gogo/protobuf/proto"
	gogodesc "github.com/gogo/protobuf/protoc-gen-gogo/descriptor"
	gogotypes "github.com/gogo/protobuf/types"
	golangproto "github.com/golang/protobuf/proto" //nolint
	"google.golang.org/protobuf/proto"
	"google.golang.org/protobuf/reflect/protodesc"
	"google.golang.org/protobuf/reflect/protoreflect"
	"google.golang.org/protobuf/reflect/protoregistry"
	"google.golang.org/protobuf/types/descriptorpb"
	"google.golang.org/protobuf/types/dynamicpb"
	"google.golang.org/protobuf/types/gofeaturespb"
	"pgregory.net/rapid"

	"verifsim/corpus"
	"verifsim/rep"
	"verifsim/wirex"
)

type extDef struct {
	name   string
	desc   any
	field  int32
	newVal func(t *rapid.T) any
}

type host struct {
	name    string
	runtime string // gogo | google | legacy
	new     func() any
	exts    []extDef
}

func ptr[T any](v T) *T { return &v }

func str(t *rapid.T) string {
	return []string{"", "a", "hello", "extension-value"}[rapid.IntRange(0, 3).Draw(t, "s")]
}

// dig renders an extension value as returned by any runtime.
func dig(v any) string {
	if v == nil {
		return "nil"
	}
	rv := reflect.ValueOf(v)
	if rv.Kind() == reflect.Pointer {
		if rv.IsNil() {
			return "nil"
		}
		if _, ok := v.(interface{ ProtoMessage() }); ok {
			return "msg" + corpus.Digest(v)
		}
		if pm, ok := v.(proto.Message); ok {
			return "msg" + corpus.DigestReflect(pm.ProtoReflect())
		}
		return dig(rv.Elem().Interface())
	}
	switch x := v.(type) {
	case []byte:
		return "y" + hex.EncodeToString(x)
	case protoreflect.EnumNumber:
		return fmt.Sprintf("e%d", x)
	}
	return fmt.Sprintf("%T:%v", v, v)
}

// dynamic scalar extensions of the googlev2 BaseEvent, built from a descriptor at init
var dynExts = buildDynamic()

func buildDynamic() map[string]protoreflect.ExtensionType {
	base := string(p2v2.File_googlev2_proto2_example_proto.Path())
	pkg := "crowdstrike.csproto.example.proto2.googlev2"
	fdp := &descriptorpb.FileDescriptorProto{
		Name: proto.String("verif_dynamic_ext.proto"), Package: proto.String("verif.dyn"), Syntax: proto.String("proto2"), Dependency: []string{base},
	}
	add := func(name string, num int32, typ descriptorpb.FieldDescriptorProto_Type, typeName string) {
		f := &descriptorpb.FieldDescriptorProto{Name: proto.String(name), Number: proto.Int32(num), Label: descriptorpb.FieldDescriptorProto_LABEL_OPTIONAL.Enum(), Type: typ.Enum(), Extendee: proto.String("." + pkg + ".BaseEvent")}
		if typeName != "" {
			f.TypeName = proto.String(typeName)
		}
		fdp.Extension = append(fdp.Extension, f)
	}
	add("dyn_bool", 200, descriptorpb.FieldDescriptorProto_TYPE_BOOL, "")
	add("dyn_int32", 201, descriptorpb.FieldDescriptorProto_TYPE_INT32, "")
	add("dyn_string", 202, descriptorpb.FieldDescriptorProto_TYPE_STRING, "")
	add("dyn_bytes", 203, descriptorpb.FieldDescriptorProto_TYPE_BYTES, "")
	add("dyn_enum", 204, descriptorpb.FieldDescriptorProto_TYPE_ENUM, "."+pkg+".EventType")
	fd, err := protodesc.NewFile(fdp, protoregistry.GlobalFiles)
	if err != nil {
		panic(err)
	}
	out := map[string]protoreflect.ExtensionType{}
	for i := 0; i < fd.Extensions().Len(); i++ {
		xd := fd.Extensions().Get(i)
		xt := dynamicpb.NewExtensionType(xd)
		// registered, so that the runtime resolves them when unmarshaling (otherwise they would come back as unknown fields)
		if err := protoregistry.GlobalTypes.RegisterExtension(xt); err != nil {
			panic(err)
		}
		out[string(xd.Name())] = xt
	}
	return out
}

func gogoBase() any {
	return &p2gogo.BaseEvent{EventID: ptr("id"), SourceID: ptr("src"), Timestamp: ptr(uint64(1)), EventType: p2gogo.EventType_EVENT_TYPE_ONE.Enum()}
}

var hosts = []host{
	{"gogo example BaseEvent", "gogo", gogoBase, []extDef{
		{"TestEvent.eventExt", p2gogo.E_TestEvent_EventExt, 100, func(t *rapid.T) any {
			return &p2gogo.TestEvent{Name: ptr(str(t)), Embedded: &p2gogo.EmbeddedEvent{ID: ptr(int32(rapid.IntRange(0, 9).Draw(t, "id")))}}
		}},
		{"AllOptionalFields.eventExt", p2gogo.E_AllOptionalFields_EventExt, 101, func(t *rapid.T) any {
			// an extension value that is itself extendable: sometimes empty, sometimes with its own extension set
			v := &p2gogo.AllOptionalFields{}
			switch rapid.IntRange(0, 2).Draw(t, "aof") {
			case 1:
				v.Field1 = ptr(str(t))
			case 2:
				if err := gogo.SetExtension(v, p2gogo.E_EmptyExtension_EventExt, &p2gogo.EmptyExtension{}); err != nil {
					panic(err)
				}
			}
			return v
		}},
	}},
	{"gogo example AllOptionalFields (no regular field set)", "gogo", func() any { return &p2gogo.AllOptionalFields{} }, []extDef{
		{"EmptyExtension.eventExt", p2gogo.E_EmptyExtension_EventExt, 101, func(t *rapid.T) any { return &p2gogo.EmptyExtension{} }},
	}},
	{"gogo example AllOptionalFields (regular fields set)", "gogo", func() any { return &p2gogo.AllOptionalFields{Field1: ptr("f1"), Field2: ptr(uint64(2))} }, []extDef{
		{"EmptyExtension.eventExt", p2gogo.E_EmptyExtension_EventExt, 101, func(t *rapid.T) any { return &p2gogo.EmptyExtension{} }},
	}},
	{"gogo descriptor.FieldOptions", "gogo", func() any { return &gogodesc.FieldOptions{} }, []extDef{
		{"gogoproto.nullable", gogoproto.E_Nullable, 65001, func(t *rapid.T) any { return ptr(rapid.Bool().Draw(t, "b")) }},
		{"gogoproto.embed", gogoproto.E_Embed, 65002, func(t *rapid.T) any { return ptr(rapid.Bool().Draw(t, "b")) }},
		{"gogoproto.customtype", gogoproto.E_Customtype, 65003, func(t *rapid.T) any { return ptr(str(t)) }},
		{"gogoproto.customname", gogoproto.E_Customname, 65004, func(t *rapid.T) any { return ptr(str(t)) }},
	}},
	{"gogo descriptor.MessageOptions", "gogo", func() any { return &gogodesc.MessageOptions{} }, []extDef{
		{"gogoproto.goproto_getters", gogoproto.E_GoprotoGetters, 64001, func(t *rapid.T) any { return ptr(rapid.Bool().Draw(t, "b")) }},
		{"gogoproto.equal", gogoproto.E_Equal, 64013, func(t *rapid.T) any { return ptr(rapid.Bool().Draw(t, "b")) }},
	}},
	{"googlev2 example BaseEvent", "google", func() any {
		return &p2v2.BaseEvent{EventID: ptr("id"), SourceID: ptr("src"), Timestamp: ptr(uint64(1)), EventType: p2v2.EventType_EVENT_TYPE_ONE.Enum()}
	}, []extDef{
		{"TestEvent.eventExt", p2v2.E_TestEvent_EventExt, 100, func(t *rapid.T) any {
			return &p2v2.TestEvent{Name: ptr(str(t)), Embedded: &p2v2.EmbeddedEvent{ID: ptr(int32(rapid.IntRange(0, 9).Draw(t, "id")))}}
		}},
		{"dyn_bool", dynExts["dyn_bool"], 200, func(t *rapid.T) any { return rapid.Bool().Draw(t, "b") }},
		{"dyn_int32", dynExts["dyn_int32"], 201, func(t *rapid.T) any { return int32(rapid.IntRange(-5, 5).Draw(t, "i")) }},
		{"dyn_string", dynExts["dyn_string"], 202, func(t *rapid.T) any { return str(t) }},
		{"dyn_bytes", dynExts["dyn_bytes"], 203, func(t *rapid.T) any { return []byte(str(t)) }},
		{"dyn_enum", dynExts["dyn_enum"], 204, func(t *rapid.T) any { return protoreflect.EnumNumber(rapid.IntRange(0, 2).Draw(t, "e")) }},
	}},
	{"googlev1-generated example BaseEvent (v2 capable)", "google", func() any {
		return &p2v1.BaseEvent{EventID: ptr("id"), SourceID: ptr("src"), Timestamp: ptr(uint64(1)), EventType: p2v1.EventType_EVENT_TYPE_ONE.Enum()}
	}, []extDef{
		{"TestEvent.eventExt", p2v1.E_TestEvent_EventExt, 100, func(t *rapid.T) any {
			return &p2v1.TestEvent{Name: ptr(str(t)), Embedded: &p2v1.EmbeddedEvent{ID: ptr(int32(rapid.IntRange(0, 9).Draw(t, "id")))}}
		}},
	}},
	{"google descriptorpb.FeatureSet", "google", func() any { return &descriptorpb.FeatureSet{} }, []extDef{
		{"pb.go", gofeaturespb.E_Go, 1002, func(t *rapid.T) any {
			return &gofeaturespb.GoFeatures{LegacyUnmarshalJsonEnum: proto.Bool(rapid.Bool().Draw(t, "b"))}
		}},
	}},
	{"legacy golang/protobuf v1 fixture", "legacy", func() any { return &LegacyMsg{Name: ptr("legacy")} }, []extDef{
		{"legacy_int", ELegacyInt, 100, func(t *rapid.T) any { return ptr(int32(rapid.IntRange(-5, 5).Draw(t, "i"))) }},
		{"legacy_str", ELegacyStr, 101, func(t *rapid.T) any { return ptr(str(t)) }},
		{"legacy_bin", ELegacyBin, 102, func(t *rapid.T) any { return []byte(str(t)) }},
		{"legacy_bool", ELegacyBool, 103, func(t *rapid.T) any { return ptr(rapid.Bool().Draw(t, "b")) }},
		{"legacy_unregistered", ELegacyUnreg, 104, func(t *rapid.T) any { return ptr(int32(rapid.IntRange(1, 9).Draw(t, "i"))) }},
	}},
	{"gogo message-set fixture", "gogo", func() any { return &GogoSetMsg{} }, []extDef{
		{"gogoset_small", EGogoSetSmall, 1000, func(t *rapid.T) any { return &gogotypes.Timestamp{Seconds: int64(rapid.IntRange(0, 9).Draw(t, "sec"))} }},
		{"gogoset_large", EGogoSetLarge, 1 << 30, func(t *rapid.T) any { return &gogotypes.Timestamp{Seconds: int64(rapid.IntRange(0, 9).Draw(t, "sec"))} }},
	}},
	{"google dynamicpb BaseEvent", "google", dynBase, []extDef{
		{"dyn_bool", dynExts["dyn_bool"], 200, func(t *rapid.T) any { return rapid.Bool().Draw(t, "b") }},
		{"dyn_int32", dynExts["dyn_int32"], 201, func(t *rapid.T) any { return int32(rapid.IntRange(-5, 5).Draw(t, "i")) }},
		{"dyn_string", dynExts["dyn_string"], 202, func(t *rapid.T) any { return str(t) }},
		{"dyn_bytes", dynExts["dyn_bytes"], 203, func(t *rapid.T) any { return []byte(str(t)) }},
	}},
}

// dynBase is a dynamicpb message of the googlev2 BaseEvent descriptor (an extendable message whose Go type,
// *dynamicpb.Message, is shared with every other dynamic message).
func dynBase() any {
	md := (&p2v2.BaseEvent{}).ProtoReflect().Descriptor()
	d := dynamicpb.NewMessage(md)
	d.Set(md.Fields().ByNumber(1), protoreflect.ValueOfString("id"))
	d.Set(md.Fields().ByNumber(2), protoreflect.ValueOfString("src"))
	d.Set(md.Fields().ByNumber(3), protoreflect.ValueOfUint64(1))
	d.Set(md.Fields().ByNumber(4), protoreflect.ValueOfEnum(1))
	return d
}

// the owning runtime's own API
func rtHas(h host, m any, e extDef) bool {
	switch h.runtime {
	case "gogo":
		return gogo.HasExtension(m.(gogo.Message), e.desc.(*gogo.ExtensionDesc))
	case "legacy":
		return golangproto.HasExtension(m.(golangproto.Message), e.desc.(*golangproto.ExtensionDesc))
	}
	return proto.HasExtension(m.(proto.Message), e.desc.(protoreflect.ExtensionType))
}

func rtGet(h host, m any, e extDef) (any, error) {
	switch h.runtime {
	case "gogo":
		return gogo.GetExtension(m.(gogo.Message), e.desc.(*gogo.ExtensionDesc))
	case "legacy":
		return golangproto.GetExtension(m.(golangproto.Message), e.desc.(*golangproto.ExtensionDesc))
	}
	return proto.GetExtension(m.(proto.Message), e.desc.(protoreflect.ExtensionType)), nil
}

func rtSet(h host, m any, e extDef, v any) error {
	switch h.runtime {
	case "gogo":
		return gogo.SetExtension(m.(gogo.Message), e.desc.(*gogo.ExtensionDesc), v)
	case "legacy":
		return golangproto.SetExtension(m.(golangproto.Message), e.desc.(*golangproto.ExtensionDesc), v)
	}
	proto.SetExtension(m.(proto.Message), e.desc.(protoreflect.ExtensionType), v)
	return nil
}

func rtClone(h host, m any) any {
	switch h.runtime {
	case "gogo":
		return gogo.Clone(m.(gogo.Message))
	case "legacy":
		return golangproto.Clone(m.(golangproto.Message))
	}
	return proto.Clone(m.(proto.Message))
}

func rtMarshal(h host, m any) ([]byte, error) {
	switch h.runtime {
	case "gogo":
		return gogo.Marshal(m.(gogo.Message))
	case "legacy":
		return golangproto.Marshal(m.(golangproto.Message))
	}
	return proto.Marshal(m.(proto.Message))
}

func rtUnmarshal(h host, b []byte, m any) error {
	switch h.runtime {
	case "gogo":
		return gogo.Unmarshal(b, m.(gogo.Message))
	case "legacy":
		return golangproto.Unmarshal(b, m.(golangproto.Message))
	}
	return proto.Unmarshal(b, m.(proto.Message))
}

// msgDigest covers known fields, unknown bytes and every extension of the host.
func msgDigest(h host, m any) string {
	// reading an extension may move it from the unknown fields to its decoded form (the runtimes decode
	// lazily), so every extension is read first and the field digest is taken afterwards
	ext := ""
	for _, e := range h.exts {
		has := rtHas(h, m, e)
		ext += fmt.Sprintf("|%s:%v", e.name, has)
		if has {
			v, _ := rtGet(h, m, e)
			ext += "=" + dig(v)
		}
	}
	return corpus.Digest(m) + ext
}

// extDigest is the extension part of msgDigest: presence and value of every extension of the host, as the
// owning runtime reports them.
func extDigest(h host, m any) string {
	ext := ""
	for _, e := range h.exts {
		has := rtHas(h, m, e)
		ext += fmt.Sprintf("|%s:%v", e.name, has)
		if has {
			v, _ := rtGet(h, m, e)
			ext += "=" + dig(v)
		}
	}
	return ext
}

var errCallback = errors.New("range callback failed on purpose")

type sim struct {
	t      *rapid.T
	w      *rep.Worker
	h      host
	m      any
	model  map[string]string // ext name -> digest of the value set
	judged int
}

func (s *sim) guard(op string, f func()) (panicked bool) {
	defer func() {
		if p := recover(); p != nil {
			if rep.IsChoicePanic(p) {
				panic(p)
			}
			panicked = true
			s.w.Violate(rep.PanicSig(op+"|"+s.h.runtime, p, debug.Stack()), fmt.Sprintf("%s on %s: %v", op, s.h.name, p))
		}
	}()
	opName := op
	s.w.WatchBegin(&opName)
	f()
	s.w.WatchEnd()
	return false
}

func (s *sim) ext() extDef { return s.h.exts[rapid.IntRange(0, len(s.h.exts)-1).Draw(s.t, "ext")] }

func (s *sim) viol(kind, format string, a ...any) {
	s.w.Violate(kind+"|"+s.h.runtime, s.h.name+": "+fmt.Sprintf(format, a...))
}

func (s *sim) opSet(t *rapid.T) {
	e := s.ext()
	v := e.newVal(t)
	want := dig(v)
	var err error
	if s.guard("SetExtension", func() { err = csproto.SetExtension(s.m, e.desc, v) }) {
		return
	}
	s.w.Step("SetExtension(%s, %s) err=%v", e.name, want, err)
	s.judged++
	if err != nil {
		s.viol("set-failed", "SetExtension(%s) returned %v", e.name, err)
		return
	}
	s.model[e.name] = want
}

// opSetOdd stores a value the runtimes treat specially - a nil byte slice, a typed nil message pointer - through
// csproto on the message and through the owning runtime's own SetExtension on a clone: csproto must succeed or
// fail where the runtime does and leave the same extensions behind. The model then follows the runtime.
func (s *sim) opSetOdd(t *rapid.T) {
	e := s.ext()
	v := e.newVal(t)
	rv := reflect.ValueOf(v)
	switch {
	case rv.Kind() == reflect.Slice || rv.Kind() == reflect.Pointer:
		v = reflect.Zero(rv.Type()).Interface()
	default:
		return // scalars of the v2 API have no nil form
	}
	twin := rtClone(s.h, s.m)
	outcome := func(f func() error) (res string) {
		defer func() {
			if p := recover(); p != nil {
				if rep.IsChoicePanic(p) {
					panic(p)
				}
				res = "fails"
			}
		}()
		if err := f(); err != nil {
			return "fails"
		}
		return "ok"
	}
	cs := outcome(func() error { return csproto.SetExtension(s.m, e.desc, v) })
	rt := outcome(func() error { return rtSet(s.h, twin, e, v) })
	s.w.Step("SetExtension(%s, nil %T): csproto %s, owning runtime on a clone %s", e.name, v, cs, rt)
	s.w.Fault("nil_extension_value")
	s.judged++
	if cs != rt {
		s.viol("set-nil-outcome-differs-from-runtime", "SetExtension(%s, nil %T): csproto %s, the owning runtime %s", e.name, v, cs, rt)
		return
	}
	if got, want := extDigest(s.h, s.m), extDigest(s.h, twin); got != want {
		s.viol("set-nil-effect-differs-from-runtime", "after SetExtension(%s, nil %T): %s, the owning runtime leaves %s", e.name, v, got, want)
		return
	}
	for _, x := range s.h.exts {
		if rtHas(s.h, s.m, x) {
			xv, _ := rtGet(s.h, s.m, x)
			s.model[x.name] = dig(xv)
		} else {
			delete(s.model, x.name)
		}
	}
}

func (s *sim) opHasGet(t *rapid.T) {
	e := s.ext()
	var has bool
	var v any
	var err error
	if s.guard("HasExtension/GetExtension", func() {
		has = csproto.HasExtension(s.m, e.desc)
		v, err = csproto.GetExtension(s.m, e.desc)
	}) {
		return
	}
	want, set := s.model[e.name]
	s.w.Step("Has/Get(%s) -> has=%v value=%s err=%v (model: set=%v)", e.name, has, dig(v), err, set)
	s.judged++
	if has != set {
		s.viol("has-wrong", "HasExtension(%s)=%v, model says set=%v", e.name, has, set)
		return
	}
	if rh := rtHas(s.h, s.m, e); rh != has {
		s.viol("has-differs-from-runtime", "HasExtension(%s)=%v, runtime says %v", e.name, has, rh)
		return
	}
	rv, rerr := rtGet(s.h, s.m, e)
	if (rerr == nil) != (err == nil) || dig(rv) != dig(v) {
		s.viol("get-differs-from-runtime", "GetExtension(%s)=(%s,%v), runtime gives (%s,%v)", e.name, dig(v), err, dig(rv), rerr)
		return
	}
	if set && (err != nil || dig(v) != want) {
		s.viol("get-wrong", "GetExtension(%s)=(%s,%v), value set was %s", e.name, dig(v), err, want)
	}
}

func (s *sim) absent(fields []int32, why string) {
	var b []byte
	var err error
	func() {
		defer func() {
			if p := recover(); p != nil {
				if rep.IsChoicePanic(p) {
					panic(p)
				}
				err = fmt.Errorf("panic: %v", p)
			}
		}()
		b, err = csproto.Marshal(s.m)
		if errors.Is(err, csproto.ErrMarshaler) {
			// csproto.Marshal has no arm for this host (a message with neither Marshal nor XXX_Marshal that is not a
			// v2 message): the bytes of the owning runtime's Marshal are the message's marshaled bytes
			s.w.Probe("absence_judged_on_owning_runtime_marshal")
			b, err = rtMarshal(s.h, s.m)
		}
	}()
	if err != nil {
		s.w.Probe("unjudged_marshal_failure")
		return
	}
	items, ok, _ := wirex.Walk(b)
	if !ok {
		s.w.Probe("unjudged_unparseable_marshal_output")
		return
	}
	for _, it := range items {
		for _, f := range fields {
			if int32(it.Tag) == f {
				s.viol("cleared-extension-still-marshaled", "field %d appears in csproto.Marshal output after %s: %x", f, why, b)
				return
			}
		}
	}
}

func (s *sim) opClear(t *rapid.T) {
	e := s.ext()
	if s.guard("ClearExtension", func() { csproto.ClearExtension(s.m, e.desc) }) {
		return
	}
	delete(s.model, e.name)
	s.w.Step("ClearExtension(%s)", e.name)
	s.judged++
	if csproto.HasExtension(s.m, e.desc) || rtHas(s.h, s.m, e) {
		s.viol("has-after-clear", "extension %s still present after ClearExtension", e.name)
		return
	}
	s.absent([]int32{e.field}, "ClearExtension("+e.name+")")
}

func (s *sim) opClearAll(t *rapid.T) {
	if s.guard("ClearAllExtensions", func() { csproto.ClearAllExtensions(s.m) }) {
		return
	}
	s.model = map[string]string{}
	s.w.Step("ClearAllExtensions")
	s.judged++
	var fs []int32
	for _, e := range s.h.exts {
		fs = append(fs, e.field)
		if csproto.HasExtension(s.m, e.desc) || rtHas(s.h, s.m, e) {
			s.viol("has-after-clearall", "extension %s still present after ClearAllExtensions", e.name)
			return
		}
	}
	s.absent(fs, "ClearAllExtensions")
}

func (s *sim) opRange(t *rapid.T) {
	failAt := -1
	if rapid.IntRange(0, 3).Draw(t, "rangefail") == 0 {
		failAt = rapid.IntRange(0, 2).Draw(t, "failat")
	}
	var seen []int32
	var err error
	calls := 0
	if s.guard("RangeExtensions", func() {
		err = csproto.RangeExtensions(s.m, func(_ interface{}, name string, field int32) error {
			if calls == failAt {
				calls++
				return errCallback
			}
			calls++
			seen = append(seen, field)
			return nil
		})
	}) {
		return
	}
	var want []int32
	for _, e := range s.h.exts {
		if _, ok := s.model[e.name]; ok {
			want = append(want, e.field)
		}
	}
	sort.Slice(want, func(i, j int) bool { return want[i] < want[j] })
	sort.Slice(seen, func(i, j int) bool { return seen[i] < seen[j] })
	if failAt >= 0 && failAt < len(want) {
		// which extensions come first is the runtime's (map) order: only the count is logged
		s.w.Step("RangeExtensions(failAt=%d) visited %d before the callback failed, err=%v (model %v)", failAt, len(seen), err, want)
	} else {
		s.w.Step("RangeExtensions(failAt=%d) visited %v err=%v (model %v)", failAt, seen, err, want)
	}
	s.judged++
	if failAt >= 0 && failAt < len(want) {
		if !errors.Is(err, errCallback) {
			s.viol("range-callback-error-lost", "callback failed at visit %d, RangeExtensions returned %v", failAt, err)
		}
		if calls != failAt+1 {
			s.viol("range-continued-after-error", "callback was invoked %d times after failing at visit %d", calls, failAt)
		}
		return
	}
	if err != nil {
		s.viol("range-error", "RangeExtensions returned %v", err)
		return
	}
	if fmt.Sprint(seen) != fmt.Sprint(want) {
		s.viol("range-set-wrong", "visited %v, set extensions are %v", seen, want)
	}
}

func (s *sim) opNumber(t *rapid.T) {
	e := s.ext()
	n, err := csproto.ExtensionFieldNumber(e.desc)
	s.judged++
	if err != nil || int32(n) != e.field {
		s.viol("field-number-wrong", "ExtensionFieldNumber(%s)=(%d,%v), declared %d", e.name, n, err, e.field)
	}
}

func (s *sim) opRoundTrip(t *rapid.T) {
	var b []byte
	var err error
	ok := func() (ok bool) {
		defer func() {
			if p := recover(); p != nil {
				if rep.IsChoicePanic(p) {
					panic(p)
				}
				ok = false
			}
		}()
		b, err = rtMarshal(s.h, s.m)
		if err != nil {
			return false
		}
		n := s.h.new()
		if r, isR := n.(interface{ Reset() }); isR {
			r.Reset()
		}
		if dm, isDyn := n.(*dynamicpb.Message); isDyn {
			n = dynamicpb.NewMessage(dm.Descriptor())
		}
		if err = rtUnmarshal(s.h, b, n); err != nil {
			return false
		}
		s.m = n
		return true
	}()
	s.w.Step("round trip through the owning runtime's Marshal/Unmarshal: ok=%v (%d bytes)", ok, len(b))
	if !ok {
		s.w.Probe("unjudged_runtime_roundtrip_failure")
	} else {
		s.w.Probe("runtime_roundtrip")
	}
}

// opCsMarshal marshals the message with csproto.Marshal (the generated code for the example hosts, which reads
// the extensions through GetExtension) and lets the owning runtime read the bytes back: the extensions it finds
// must be the ones the runtime reports on the message itself. The message then continues as the decoded copy.
func (s *sim) opCsMarshal(t *rapid.T) {
	for _, e := range s.h.exts {
		if strings.HasPrefix(e.name, "dyn_") && rtHas(s.h, s.m, e) {
			// an extension declared outside the generator's input is not written by the generated Marshal at all
			// (C05-class, pure input); the step is only taken while none of those is set
			s.w.Probe("csmarshal_skipped_extension_unknown_to_generator_is_set")
			return
		}
	}
	var b []byte
	var err error
	func() {
		defer func() {
			if p := recover(); p != nil {
				if rep.IsChoicePanic(p) {
					panic(p)
				}
				err = fmt.Errorf("panic: %v", p)
			}
		}()
		b, err = csproto.Marshal(s.m)
	}()
	s.w.Step("csproto.Marshal -> %d bytes, err=%v; read back by the owning runtime", len(b), err)
	if err != nil {
		if errors.Is(err, csproto.ErrMarshaler) {
			s.w.Probe("csmarshal_no_arm_for_host")
			return
		}
		// the hosts have every required field set and only well-formed extension values are ever stored
		s.viol("marshal-with-extensions-fails", "csproto.Marshal: %v (extensions %s)", err, extDigest(s.h, s.m))
		return
	}
	n := s.h.new()
	if r, isR := n.(interface{ Reset() }); isR {
		r.Reset()
	}
	var rerr error
	func() {
		defer func() {
			if p := recover(); p != nil {
				if rep.IsChoicePanic(p) {
					panic(p)
				}
				rerr = fmt.Errorf("panic: %v", p)
			}
		}()
		rerr = rtUnmarshal(s.h, b, n)
	}()
	if rerr != nil {
		s.viol("marshal-with-extensions-unreadable", "the owning runtime rejects csproto.Marshal's output %x: %v", b, rerr)
		return
	}
	s.judged++
	if got, want := extDigest(s.h, n), extDigest(s.h, s.m); got != want {
		s.viol("marshaled-extensions-differ", "extensions after csproto.Marshal + runtime Unmarshal: %s, on the message: %s (bytes %x)", got, want, b)
		return
	}
	s.w.Probe("csmarshal_roundtrip")
	s.m = n
}

// opTypedNil passes a typed nil pointer of the host's Go type to an accessor. What the runtimes do with a
// nil message is their business (not judged, panics recovered); the point is that it must not change how
// real messages of that type are treated afterwards.
func (s *sim) opTypedNil(t *rapid.T) {
	e := s.ext()
	nilMsg := reflect.Zero(reflect.TypeOf(s.m)).Interface()
	func() {
		defer func() {
			if p := recover(); p != nil && rep.IsChoicePanic(p) {
				panic(p)
			}
		}()
		_ = csproto.HasExtension(nilMsg, e.desc)
	}()
	s.w.Step("HasExtension(typed nil %T, %s) (result not judged)", nilMsg, e.name)
	s.w.Fault("typed_nil_message")
}

// opOtherDynamic sends a dynamic message of a NON-extendable type through the extension helpers. All dynamic
// messages share one Go type, so nothing learnt from this one may be applied to the others.
func (s *sim) opOtherDynamic(t *rapid.T) {
	md := (&p2v2.EmbeddedEvent{}).ProtoReflect().Descriptor()
	d := dynamicpb.NewMessage(md)
	d.Set(md.Fields().ByNumber(1), protoreflect.ValueOfInt32(7))
	visited := 0
	var err error
	if s.guard("RangeExtensions/ClearAllExtensions(non-extendable dynamic message)", func() {
		err = csproto.RangeExtensions(d, func(interface{}, string, int32) error { visited++; return nil })
		csproto.ClearAllExtensions(d)
	}) {
		return
	}
	s.w.Step("a non-extendable dynamic message goes through RangeExtensions/ClearAllExtensions (visited %d, err=%v)", visited, err)
	s.w.Fault("foreign_dynamic_message")
	if visited != 0 || err != nil {
		s.viol("range-on-non-extendable", "visited %d extensions, err=%v", visited, err)
	}
}

func (s *sim) opMismatch(t *rapid.T) {
	// a descriptor of a different runtime
	var foreign []extDef
	for _, h := range hosts {
		if (h.runtime == "gogo") != (s.h.runtime == "gogo") {
			foreign = append(foreign, h.exts...)
		}
	}
	e := foreign[rapid.IntRange(0, len(foreign)-1).Draw(t, "foreign")]
	before := msgDigest(s.h, s.m)
	which := rapid.IntRange(0, 3).Draw(t, "mismatchop")
	var detail string
	bad := false
	if s.guard("mismatched-descriptor", func() {
		switch which {
		case 0:
			if csproto.HasExtension(s.m, e.desc) {
				bad, detail = true, "HasExtension returned true"
			}
		case 1:
			if v, err := csproto.GetExtension(s.m, e.desc); err == nil {
				bad, detail = true, fmt.Sprintf("GetExtension returned (%s, nil)", dig(v))
			}
		case 2:
			if err := csproto.SetExtension(s.m, e.desc, e.newVal(t)); err == nil {
				bad, detail = true, "SetExtension returned nil"
			}
		case 3:
			func() {
				defer func() { _ = recover() }() // documented to panic
				csproto.ClearExtension(s.m, e.desc)
			}()
		}
	}) {
		return
	}
	s.w.Step("mismatched descriptor %s (%T) op %d", e.name, e.desc, which)
	s.w.Fault("mismatched_descriptor")
	s.judged++
	if bad {
		s.viol("mismatch-accepted", "%s descriptor %s: %s", reflect.TypeOf(e.desc), e.name, detail)
		return
	}
	if after := msgDigest(s.h, s.m); after != before {
		s.viol("mismatch-modified-message", "message changed from %.200s to %.200s", before, after)
	}
}

func runC12(t *rapid.T, w *rep.Worker) {
	h := hosts[rapid.IntRange(0, len(hosts)-1).Draw(t, "host")]
	s := &sim{t: t, w: w, h: h, m: h.new(), model: map[string]string{}}
	w.Begin("host=" + h.name)
	w.MixS(h.name)
	csproto.VerifResetTypeCaches() // every run starts with an empty process-wide type cache
	t.Repeat(map[string]func(*rapid.T){
		"set": s.opSet, "set2": s.opSet, "hasget": s.opHasGet, "hasget2": s.opHasGet, "clear": s.opClear, "clearall": s.opClearAll,
		"range": s.opRange, "number": s.opNumber, "typednil": s.opTypedNil, "otherdynamic": s.opOtherDynamic, "roundtrip": s.opRoundTrip, "csmarshal": s.opCsMarshal, "setodd": s.opSetOdd, "mismatch": s.opMismatch,
		"": func(t *rapid.T) {
			w.State(fmt.Sprintf("%s|set=%d", h.runtime, len(s.model)))
			if sig := w.Pending(); sig != "" {
				t.Fatalf("%s", sig)
			}
		},
	})
	w.Probes["judged_operations"] += int64(s.judged)
	if s.judged > 1 {
		w.EndNontrivial()
	}
}

func TestC12Hist(t *testing.T) {
	w := rep.NewWorker(t, "C12", "hist")
	defer w.Finish()
	if mt := csproto.MsgType(&LegacyMsg{}); mt != csproto.MessageTypeGoogleV1 {
		t.Fatalf("HARNESS: the legacy fixture is classified %v, not MessageTypeGoogleV1; the Google-v1 arm would not be exercised", mt)
	}
	rapid.Check(t, func(rt *rapid.T) { runC12(rt, w) })
}
