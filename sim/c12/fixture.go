package c12

import (
	gogoproto "github.com/gogo/protobuf/proto"
	gogotypes "github.com/gogo/protobuf/types"
	golangproto "github.com/golang/protobuf/proto" //nolint
)

// LegacyMsg is a hand-written message in the style protoc-gen-go emitted before the v2 API existed:
// struct tags, XXX_ fields, ExtensionRangeArray, and no ProtoReflect method. csproto classifies such a
// type as MessageTypeGoogleV1, which is the only way to reach that arm of extensions.go.
type LegacyMsg struct {
	Name                               *string  `protobuf:"bytes,1,opt,name=name" json:"name,omitempty"`
	XXX_NoUnkeyedLiteral               struct{} `json:"-"`
	golangproto.XXX_InternalExtensions `json:"-"`
	XXX_unrecognized                   []byte `json:"-"`
	XXX_sizecache                      int32  `json:"-"`
}

func (m *LegacyMsg) Reset()         { *m = LegacyMsg{} }
func (m *LegacyMsg) String() string { return "verif.LegacyMsg" }
func (*LegacyMsg) ProtoMessage()    {}

var extRangeLegacyMsg = []golangproto.ExtensionRange{{Start: 100, End: 536870911}}

func (*LegacyMsg) ExtensionRangeArray() []golangproto.ExtensionRange { return extRangeLegacyMsg }

var (
	ELegacyInt = &golangproto.ExtensionDesc{ExtendedType: (*LegacyMsg)(nil), ExtensionType: (*int32)(nil), Field: 100, Name: "verif.legacy_int", Tag: "varint,100,opt,name=legacy_int", Filename: "verif_legacy.proto"}
	ELegacyStr = &golangproto.ExtensionDesc{ExtendedType: (*LegacyMsg)(nil), ExtensionType: (*string)(nil), Field: 101, Name: "verif.legacy_str", Tag: "bytes,101,opt,name=legacy_str", Filename: "verif_legacy.proto"}
	ELegacyBin = &golangproto.ExtensionDesc{ExtendedType: (*LegacyMsg)(nil), ExtensionType: ([]byte)(nil), Field: 102, Name: "verif.legacy_bin", Tag: "bytes,102,opt,name=legacy_bin", Filename: "verif_legacy.proto"}
	// deliberately NOT registered: after a Marshal/Unmarshal round trip its value lives in the unknown fields,
	// where the v1 API still finds it
	ELegacyUnreg = &golangproto.ExtensionDesc{ExtendedType: (*LegacyMsg)(nil), ExtensionType: (*int32)(nil), Field: 104, Name: "verif.legacy_unregistered", Tag: "varint,104,opt,name=legacy_unregistered", Filename: "verif_legacy.proto"}
	ELegacyBool  = &golangproto.ExtensionDesc{ExtendedType: (*LegacyMsg)(nil), ExtensionType: (*bool)(nil), Field: 103, Name: "verif.legacy_bool", Tag: "varint,103,opt,name=legacy_bool", Filename: "verif_legacy.proto"}
)

func init() {
	golangproto.RegisterType((*LegacyMsg)(nil), "verif.LegacyMsg")
	golangproto.RegisterExtension(ELegacyInt)
	golangproto.RegisterExtension(ELegacyStr)
	golangproto.RegisterExtension(ELegacyBin)
	golangproto.RegisterExtension(ELegacyBool)
}

// GogoSetMsg is a hand-written gogo-registered message with message_set_wire_format semantics: its extension
// numbers may legally go up to 2147483646, beyond the ordinary field-number limit.
type GogoSetMsg struct {
	XXX_NoUnkeyedLiteral             struct{} `json:"-"`
	gogoproto.XXX_InternalExtensions `protobuf_messageset:"1" json:"-"`
	XXX_unrecognized                 []byte `json:"-"`
	XXX_sizecache                    int32  `json:"-"`
}

func (m *GogoSetMsg) Reset()         { *m = GogoSetMsg{} }
func (m *GogoSetMsg) String() string { return "verif.GogoSetMsg" }
func (*GogoSetMsg) ProtoMessage()    {}

var extRangeGogoSetMsg = []gogoproto.ExtensionRange{{Start: 4, End: 2147483646}}

func (*GogoSetMsg) ExtensionRangeArray() []gogoproto.ExtensionRange { return extRangeGogoSetMsg }

var (
	EGogoSetSmall = &gogoproto.ExtensionDesc{ExtendedType: (*GogoSetMsg)(nil), ExtensionType: (*gogotypes.Timestamp)(nil), Field: 1000, Name: "verif.gogoset_small", Tag: "bytes,1000,opt,name=gogoset_small", Filename: "verif_gogoset.proto"}
	EGogoSetLarge = &gogoproto.ExtensionDesc{ExtendedType: (*GogoSetMsg)(nil), ExtensionType: (*gogotypes.Timestamp)(nil), Field: 1 << 30, Name: "verif.gogoset_large", Tag: "bytes,1073741824,opt,name=gogoset_large", Filename: "verif_gogoset.proto"}
)

func init() {
	gogoproto.RegisterType((*GogoSetMsg)(nil), "verif.GogoSetMsg")
	gogoproto.RegisterExtension(EGogoSetSmall)
	gogoproto.RegisterExtension(EGogoSetLarge)
}
