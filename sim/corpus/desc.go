package corpus

import (
	"bytes"
	"compress/gzip"
	"fmt"
	"io"
	"sync"

	gogoproto "github.com/gogo/protobuf/proto"
	"google.golang.org/protobuf/proto"
	"google.golang.org/protobuf/reflect/protodesc"
	"google.golang.org/protobuf/reflect/protoreflect"
	"google.golang.org/protobuf/reflect/protoregistry"
	"google.golang.org/protobuf/types/descriptorpb"
	_ "google.golang.org/protobuf/types/known/structpb"
	_ "google.golang.org/protobuf/types/known/timestamppb"
)

var (
	gogoMu    sync.Mutex
	gogoFiles = map[string]protoreflect.FileDescriptor{}
)

func gogoFile(name string) (protoreflect.FileDescriptor, error) {
	if fd, ok := gogoFiles[name]; ok {
		return fd, nil
	}
	gz := gogoproto.FileDescriptor(name)
	if gz == nil {
		return nil, fmt.Errorf("gogo registry has no file %q", name)
	}
	zr, err := gzip.NewReader(bytes.NewReader(gz))
	if err != nil {
		return nil, err
	}
	raw, err := io.ReadAll(zr)
	if err != nil {
		return nil, err
	}
	fdp := &descriptorpb.FileDescriptorProto{}
	if err := proto.Unmarshal(raw, fdp); err != nil {
		return nil, err
	}
	fd, err := protodesc.NewFile(fdp, protoregistry.GlobalFiles)
	if err != nil {
		return nil, err
	}
	gogoFiles[name] = fd
	return fd, nil
}

// SchemaDescriptor returns the message descriptor from the schema itself: for google types the
// generated descriptor, for gogo types the descriptor rebuilt from the file the gogo registry holds
// (not the one protobuf-go derives from struct tags).
func SchemaDescriptor(m any) (protoreflect.MessageDescriptor, error) {
	if !IsGogo(m) {
		return Wrap(m).Descriptor(), nil
	}
	gogoMu.Lock()
	defer gogoMu.Unlock()
	full := protoreflect.FullName(gogoproto.MessageName(m.(gogoproto.Message)))
	for _, f := range []string{"gogo_proto2_example.proto", "gogo_proto3_example.proto", "gogo_permessage_example.proto"} {
		fd, err := gogoFile(f)
		if err != nil {
			return nil, err
		}
		if full.Parent() == fd.Package() || len(full) > len(fd.Package()) && string(full[:len(fd.Package())]) == string(fd.Package()) {
			if d := findMsg(fd.Messages(), full); d != nil {
				return d, nil
			}
		}
	}
	return nil, fmt.Errorf("no schema descriptor for %s", full)
}

func findMsg(ms protoreflect.MessageDescriptors, full protoreflect.FullName) protoreflect.MessageDescriptor {
	for i := 0; i < ms.Len(); i++ {
		m := ms.Get(i)
		if m.FullName() == full {
			return m
		}
		if d := findMsg(m.Messages(), full); d != nil {
			return d
		}
	}
	return nil
}
