package corpus

import (
	"bytes"

	"google.golang.org/protobuf/proto"
	"google.golang.org/protobuf/reflect/protoreflect"
	"google.golang.org/protobuf/runtime/protoimpl"
	"google.golang.org/protobuf/types/dynamicpb"
)

// EqualModuloMapOrder reports whether two encodings of a message of descriptor md are equal up to the
// order of map entries: equal length and equal canonical form (descriptor-driven parse with dynamicpb,
// deterministic re-encoding). If either side does not parse, only raw equality counts.
func EqualModuloMapOrder(md protoreflect.MessageDescriptor, a, b []byte) bool {
	if bytes.Equal(a, b) {
		return true
	}
	if len(a) != len(b) {
		return false
	}
	ca, ok1 := canon(md, a)
	cb, ok2 := canon(md, b)
	return ok1 && ok2 && bytes.Equal(ca, cb)
}

func canon(md protoreflect.MessageDescriptor, b []byte) (out []byte, ok bool) {
	defer func() {
		if recover() != nil {
			ok = false
		}
	}()
	d := dynamicpb.NewMessage(md)
	if err := (proto.UnmarshalOptions{AllowPartial: true}).Unmarshal(b, d); err != nil {
		return nil, false
	}
	out, err := proto.MarshalOptions{Deterministic: true, AllowPartial: true}.Marshal(d)
	return out, err == nil
}

// Underlying returns the generated Go message behind a protoreflect message (unwrapping the legacy wrapper).
func Underlying(r protoreflect.Message) any {
	return protoimpl.X.ProtoMessageV1Of(r.Interface())
}

// StaleCaches walks m and every message reachable from it and returns descriptions of those whose
// cached size is positive and differs from the size their fresh copy reports.
func StaleCaches(m any) []string {
	var out []string
	var walk func(r protoreflect.Message, path string)
	walk = func(r protoreflect.Message, path string) {
		u := Underlying(r)
		if fm, ok := u.(FM); ok {
			if c, has := SizeCache(u); has && c > 0 {
				if fresh, ok2 := FreshCopy(u).(FM); ok2 {
					if fs := safeSize(fresh); fs >= 0 && int32(fs) != c {
						out = append(out, path+string(r.Descriptor().Name()))
					}
				}
			}
			_ = fm
		}
		r.Range(func(fd protoreflect.FieldDescriptor, v protoreflect.Value) bool {
			if fd.Message() == nil {
				return true
			}
			switch {
			case fd.IsList():
				l := v.List()
				for i := 0; i < l.Len(); i++ {
					walk(l.Get(i).Message(), path+string(fd.Name())+"[]/")
				}
			case fd.IsMap():
				if fd.MapValue().Message() != nil {
					v.Map().Range(func(_ protoreflect.MapKey, mv protoreflect.Value) bool {
						walk(mv.Message(), path+string(fd.Name())+"{}/")
						return true
					})
				}
			default:
				walk(v.Message(), path+string(fd.Name())+"/")
			}
			return true
		})
	}
	walk(Wrap(m), "")
	return out
}

func safeSize(fm FM) (n int) {
	defer func() {
		if recover() != nil {
			n = -1
		}
	}()
	return fm.Size()
}
