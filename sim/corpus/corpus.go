// Package corpus is the shared message model for the generated-code checks (C06, C08, C09, C10, C19):
// one protoreflect-based view over the message types of all three runtimes (google types natively,
// gogo types through protobuf-go's legacy struct wrapper, which works from the struct tags), with a
// canonical digest, a deep copy that builds a brand-new struct, a drawn mutator, and access to the
// size-cache field. None of it calls csproto or generated fast-marshal code.
package corpus

import (
	"encoding/hex"
	"fmt"
	"math"
	"reflect"
	"sort"
	"strings"
	"unsafe"

	gogoproto "github.com/gogo/protobuf/proto"
	"google.golang.org/protobuf/reflect/protoreflect"
	"google.golang.org/protobuf/runtime/protoimpl"
	"pgregory.net/rapid"
)

// Type is one message type of the corpus.
type Type struct {
	Pkg, Name, Runtime, Syntax string
	New                        func() any
}

func (t Type) String() string { return t.Pkg + "." + t.Name }

// FM is the method set the fast-marshal generator adds to every message type.
type FM interface {
	Size() int
	Marshal() ([]byte, error)
	MarshalTo([]byte) error
	Unmarshal([]byte) error
}

// Wrap returns the protoreflect view of a generated message of any runtime.
func Wrap(m any) protoreflect.Message {
	return protoimpl.X.ProtoMessageV2Of(m).ProtoReflect()
}

// IsGogo reports whether m is registered with the gogo runtime.
func IsGogo(m any) bool {
	gm, ok := m.(gogoproto.Message)
	return ok && gogoproto.MessageName(gm) != ""
}

// ---- digest ----

// Digest renders the full contents of m canonically (fields by number, map entries sorted, floats
// by bit pattern, unknown-field bytes, extensions); every byte is copied into the result.
func Digest(m any) string {
	var sb strings.Builder
	digestMsg(&sb, Wrap(m))
	if IsGogo(m) {
		digestGogoExt(&sb, m)
	}
	return sb.String()
}

// DigestReflect renders a protoreflect message (e.g. a dynamicpb message) the same way.
func DigestReflect(r protoreflect.Message) string {
	var sb strings.Builder
	digestMsg(&sb, r)
	return sb.String()
}

type fv struct {
	fd protoreflect.FieldDescriptor
	v  protoreflect.Value
}

func digestMsg(sb *strings.Builder, r protoreflect.Message) {
	var fs []fv
	r.Range(func(fd protoreflect.FieldDescriptor, v protoreflect.Value) bool {
		fs = append(fs, fv{fd, v})
		return true
	})
	sort.Slice(fs, func(i, j int) bool { return fs[i].fd.Number() < fs[j].fd.Number() })
	sb.WriteByte('{')
	for _, f := range fs {
		fmt.Fprintf(sb, "%d:", f.fd.Number())
		switch {
		case f.fd.IsList():
			l := f.v.List()
			sb.WriteByte('[')
			for i := 0; i < l.Len(); i++ {
				digestVal(sb, f.fd, l.Get(i))
				sb.WriteByte(',')
			}
			sb.WriteByte(']')
		case f.fd.IsMap():
			mp := f.v.Map()
			var ents []string
			mp.Range(func(k protoreflect.MapKey, v protoreflect.Value) bool {
				var eb strings.Builder
				digestVal(&eb, f.fd.MapKey(), k.Value())
				eb.WriteString("=>")
				digestVal(&eb, f.fd.MapValue(), v)
				ents = append(ents, eb.String())
				return true
			})
			sort.Strings(ents)
			sb.WriteString("map[" + strings.Join(ents, ";") + "]")
		default:
			digestVal(sb, f.fd, f.v)
		}
		sb.WriteByte(' ')
	}
	if u := r.GetUnknown(); len(u) > 0 {
		sb.WriteString("unk:" + hex.EncodeToString(u))
	}
	sb.WriteByte('}')
}

func digestVal(sb *strings.Builder, fd protoreflect.FieldDescriptor, v protoreflect.Value) {
	switch fd.Kind() {
	case protoreflect.MessageKind, protoreflect.GroupKind:
		digestMsg(sb, v.Message())
	case protoreflect.BytesKind:
		sb.WriteString("y" + hex.EncodeToString(v.Bytes()))
	case protoreflect.StringKind:
		sb.WriteString("s" + hex.EncodeToString([]byte(v.String())))
	case protoreflect.FloatKind:
		fmt.Fprintf(sb, "f%08x", math.Float32bits(float32(v.Float())))
	case protoreflect.DoubleKind:
		fmt.Fprintf(sb, "d%016x", math.Float64bits(v.Float()))
	case protoreflect.EnumKind:
		fmt.Fprintf(sb, "e%d", v.Enum())
	case protoreflect.BoolKind:
		fmt.Fprintf(sb, "b%v", v.Bool())
	case protoreflect.Uint32Kind, protoreflect.Uint64Kind, protoreflect.Fixed32Kind, protoreflect.Fixed64Kind:
		fmt.Fprintf(sb, "u%d", v.Uint())
	default:
		fmt.Fprintf(sb, "i%d", v.Int())
	}
}

func digestGogoExt(sb *strings.Builder, m any) {
	gm := m.(gogoproto.Message)
	if _, ok := m.(interface {
		ExtensionRangeArray() []gogoproto.ExtensionRange
	}); !ok {
		return
	}
	descs, err := gogoproto.ExtensionDescs(gm)
	if err != nil {
		fmt.Fprintf(sb, "ext-err:%v", err)
		return
	}
	sort.Slice(descs, func(i, j int) bool { return descs[i].Field < descs[j].Field })
	for _, d := range descs {
		fmt.Fprintf(sb, " ext%d:", d.Field)
		if d.ExtensionType == nil {
			raw, _ := gogoproto.GetRawExtension(gogoExtMap(gm), d.Field)
			sb.WriteString("raw" + hex.EncodeToString(raw))
			continue
		}
		v, err := gogoproto.GetExtension(gm, d)
		if err != nil {
			fmt.Fprintf(sb, "err:%v", err)
			continue
		}
		if pm, ok := v.(gogoproto.Message); ok {
			sb.WriteString(Digest(pm))
		} else {
			fmt.Fprintf(sb, "%v", reflect.Indirect(reflect.ValueOf(v)).Interface())
		}
	}
}

func gogoExtMap(m gogoproto.Message) map[int32]gogoproto.Extension {
	defer func() { _ = recover() }()
	return gogoproto.GetUnsafeExtensionsMap(m)
}

// ---- deep copy into a brand-new struct ----

// FreshCopy builds a new message of m's Go type and copies m's contents into it field by field.
// No cache or other internal state can travel with it.
func FreshCopy(m any) any {
	n := reflect.New(reflect.TypeOf(m).Elem()).Interface()
	copyMsg(Wrap(n), Wrap(m))
	if IsGogo(m) {
		copyGogoExt(n, m)
	}
	return n
}

func copyMsg(dst, src protoreflect.Message) {
	src.Range(func(fd protoreflect.FieldDescriptor, v protoreflect.Value) bool {
		switch {
		case fd.IsList():
			sl, dl := v.List(), dst.Mutable(fd).List()
			for i := 0; i < sl.Len(); i++ {
				if fd.Message() != nil {
					ne := dl.NewElement()
					copyMsg(ne.Message(), sl.Get(i).Message())
					dl.Append(ne)
				} else {
					dl.Append(cloneScalar(sl.Get(i)))
				}
			}
		case fd.IsMap():
			sm, dm := v.Map(), dst.Mutable(fd).Map()
			sm.Range(func(k protoreflect.MapKey, mv protoreflect.Value) bool {
				if fd.MapValue().Message() != nil {
					nv := dm.NewValue()
					copyMsg(nv.Message(), mv.Message())
					dm.Set(k, nv)
				} else {
					dm.Set(k, cloneScalar(mv))
				}
				return true
			})
		case fd.Message() != nil:
			if fd.IsExtension() {
				nv := dst.NewField(fd)
				copyMsg(nv.Message(), v.Message())
				dst.Set(fd, nv)
			} else {
				copyMsg(dst.Mutable(fd).Message(), v.Message())
			}
		default:
			dst.Set(fd, cloneScalar(v))
		}
		return true
	})
	if u := src.GetUnknown(); len(u) > 0 {
		dst.SetUnknown(append(protoreflect.RawFields(nil), u...))
	}
}

func cloneScalar(v protoreflect.Value) protoreflect.Value {
	if b, ok := v.Interface().([]byte); ok {
		return protoreflect.ValueOfBytes(append([]byte{}, b...))
	}
	return v
}

func copyGogoExt(dst, src any) {
	if _, ok := src.(interface {
		ExtensionRangeArray() []gogoproto.ExtensionRange
	}); !ok {
		return
	}
	gs, gd := src.(gogoproto.Message), dst.(gogoproto.Message)
	descs, err := gogoproto.ExtensionDescs(gs)
	if err != nil {
		return
	}
	for _, d := range descs {
		if d.ExtensionType == nil {
			continue
		}
		v, err := gogoproto.GetExtension(gs, d)
		if err != nil {
			continue
		}
		if pm, ok := v.(gogoproto.Message); ok {
			v = FreshCopy(pm)
		}
		_ = gogoproto.SetExtension(gd, d, v)
	}
}

// ---- size cache ----

// SizeCache reads the message's cached-size field (sizeCache / XXX_sizecache); ok=false if the type has none.
func SizeCache(m any) (int32, bool) {
	v := reflect.ValueOf(m).Elem()
	for _, name := range []string{"sizeCache", "XXX_sizecache"} {
		if f := v.FieldByName(name); f.IsValid() && f.Kind() == reflect.Int32 {
			return *(*int32)(unsafe.Pointer(f.UnsafeAddr())), true
		}
	}
	return 0, false
}

// ---- drawn values and mutations ----

func drawScalar(t *rapid.T, fd protoreflect.FieldDescriptor) protoreflect.Value {
	i64 := func() int64 {
		vals := []int64{0, 1, -1, 127, 128, -128, 300, math.MaxInt32, math.MinInt32, math.MaxInt64, math.MinInt64}
		k := rapid.IntRange(0, len(vals)+1).Draw(t, "i64cls")
		if k < len(vals) {
			return vals[k]
		}
		return rapid.Int64().Draw(t, "i64")
	}
	switch fd.Kind() {
	case protoreflect.BoolKind:
		return protoreflect.ValueOfBool(rapid.Bool().Draw(t, "bool"))
	case protoreflect.EnumKind:
		vals := fd.Enum().Values()
		return protoreflect.ValueOfEnum(vals.Get(rapid.IntRange(0, vals.Len()-1).Draw(t, "enum")).Number())
	case protoreflect.Int32Kind, protoreflect.Sint32Kind, protoreflect.Sfixed32Kind:
		return protoreflect.ValueOfInt32(int32(i64()))
	case protoreflect.Int64Kind, protoreflect.Sint64Kind, protoreflect.Sfixed64Kind:
		return protoreflect.ValueOfInt64(i64())
	case protoreflect.Uint32Kind, protoreflect.Fixed32Kind:
		return protoreflect.ValueOfUint32(uint32(i64()))
	case protoreflect.Uint64Kind, protoreflect.Fixed64Kind:
		return protoreflect.ValueOfUint64(uint64(i64()))
	case protoreflect.FloatKind:
		vals := []float32{0, 1, -1, 1.5, math.MaxFloat32, math.SmallestNonzeroFloat32, float32(math.Inf(1)), float32(math.Copysign(0, -1)), math.Float32frombits(0x7fc00001)}
		return protoreflect.ValueOfFloat32(vals[rapid.IntRange(0, len(vals)-1).Draw(t, "f32")])
	case protoreflect.DoubleKind:
		vals := []float64{0, 1, -1, 1.5, math.MaxFloat64, math.SmallestNonzeroFloat64, math.Inf(-1), math.Copysign(0, -1), math.Float64frombits(0x7ff8000000000001)}
		return protoreflect.ValueOfFloat64(vals[rapid.IntRange(0, len(vals)-1).Draw(t, "f64")])
	case protoreflect.StringKind:
		return protoreflect.ValueOfString(drawString(t))
	case protoreflect.BytesKind:
		return protoreflect.ValueOfBytes([]byte(drawString(t)))
	}
	panic("drawScalar: unexpected kind " + fd.Kind().String())
}

func drawString(t *rapid.T) string {
	switch rapid.IntRange(0, 11).Draw(t, "strcls") {
	case 0, 1:
		return ""
	case 2:
		return "a"
	case 3:
		// a small family of short strings that differ only in trailing or embedded NUL bytes or are prefixes of one
		// another: whatever compares, hashes, pads or interns strings must keep them apart
		fam := []string{"\x00", "a\x00", "ab", "ab\x00", "ab\x00\x00", "key", "key\x00", "\x00ab", "abcdefgh", "abcdefgh\x00", "abcdefghi"}
		return fam[rapid.IntRange(0, len(fam)-1).Draw(t, "nulstr")]
	case 4, 5:
		return strings.Repeat("x", rapid.IntRange(120, 140).Draw(t, "longstr"))
	case 6:
		// sizes around the thresholds code tends to treat differently: one- to two-byte and two- to three-byte length
		// prefixes, powers of two that buffers and slabs are sized by
		sizes := []int{255, 256, 257, 300, 1023, 1024, 1025, 4096, 16383, 16384, 70000}
		n := sizes[rapid.IntRange(0, len(sizes)-1).Draw(t, "bigstr")]
		b := make([]byte, n)
		for i := range b {
			b[i] = byte('A' + i%23)
		}
		return string(b)
	default:
		n := rapid.IntRange(1, 12).Draw(t, "strlen")
		b := make([]byte, n)
		for i := range b {
			b[i] = byte('a' + rapid.IntRange(0, 25).Draw(t, "ch"))
		}
		return string(b)
	}
}

// indexedMapKey is the i-th of a sequence of distinct keys of the field's kind.
func indexedMapKey(fd protoreflect.FieldDescriptor, i int) protoreflect.MapKey {
	switch fd.Kind() {
	case protoreflect.StringKind:
		return protoreflect.ValueOfString(fmt.Sprintf("key%03d", i)).MapKey()
	case protoreflect.Int32Kind, protoreflect.Sint32Kind, protoreflect.Sfixed32Kind:
		return protoreflect.ValueOfInt32(int32(i)).MapKey()
	case protoreflect.Int64Kind, protoreflect.Sint64Kind, protoreflect.Sfixed64Kind:
		return protoreflect.ValueOfInt64(int64(i)).MapKey()
	case protoreflect.Uint32Kind, protoreflect.Fixed32Kind:
		return protoreflect.ValueOfUint32(uint32(i)).MapKey()
	case protoreflect.Uint64Kind, protoreflect.Fixed64Kind:
		return protoreflect.ValueOfUint64(uint64(i)).MapKey()
	}
	panic("indexedMapKey: unexpected kind " + fd.Kind().String())
}

func drawMapKey(t *rapid.T, fd protoreflect.FieldDescriptor) protoreflect.MapKey {
	if fd.Kind() == protoreflect.StringKind {
		return protoreflect.ValueOfString([]string{"", "k1", "k2", "key-three", "key", "key\x00"}[rapid.IntRange(0, 5).Draw(t, "mkey")]).MapKey()
	}
	return drawScalar(t, fd).MapKey()
}

// Populate fills r with drawn content (used to create initial messages and nested values).
func Populate(t *rapid.T, r protoreflect.Message, depth int) {
	fds := r.Descriptor().Fields()
	for i := 0; i < fds.Len(); i++ {
		fd := fds.Get(i)
		if fd.Cardinality() != protoreflect.Required && rapid.IntRange(0, 2).Draw(t, "popskip") == 0 {
			continue
		}
		setField(t, r, fd, depth)
	}
}

// PopulateSparse sets only k drawn fields (plus the required ones), so that each field kind also occurs
// nearly alone in small messages.
func PopulateSparse(t *rapid.T, r protoreflect.Message, k int) {
	fds := r.Descriptor().Fields()
	for i := 0; i < fds.Len(); i++ {
		if fd := fds.Get(i); fd.Cardinality() == protoreflect.Required {
			setField(t, r, fd, 2)
		}
	}
	for i := 0; i < k && fds.Len() > 0; i++ {
		setField(t, r, fds.Get(rapid.IntRange(0, fds.Len()-1).Draw(t, "sparsefield")), 2)
	}
}

func setField(t *rapid.T, r protoreflect.Message, fd protoreflect.FieldDescriptor, depth int) string {
	switch {
	case fd.IsList():
		l := r.Mutable(fd).List()
		n := rapid.IntRange(1, 3).Draw(t, "nappend")
		if fd.Message() == nil && rapid.IntRange(0, 15).Draw(t, "manyelems") == 0 {
			// now and then a collection long enough to cross whatever a reader or writer counts or batches by
			n = []int{17, 33, 34, 64, 130}[rapid.IntRange(0, 4).Draw(t, "nmany")]
		}
		for i := 0; i < n; i++ {
			if fd.Message() != nil {
				ne := l.NewElement()
				if depth < 3 {
					Populate(t, ne.Message(), depth+1)
				}
				l.Append(ne)
			} else {
				l.Append(drawScalar(t, fd))
			}
		}
		return fmt.Sprintf("append %d to %s", n, fd.Name())
	case fd.IsMap():
		mp := r.Mutable(fd).Map()
		if fd.MapValue().Message() == nil && fd.MapKey().Kind() != protoreflect.BoolKind && rapid.IntRange(0, 15).Draw(t, "manyentries") == 0 {
			n := []int{17, 33, 40}[rapid.IntRange(0, 2).Draw(t, "nmanyentries")]
			for i := 0; i < n; i++ {
				mp.Set(indexedMapKey(fd.MapKey(), i), drawScalar(t, fd.MapValue()))
			}
			return fmt.Sprintf("set %d entries of %s", n, fd.Name())
		}
		k := drawMapKey(t, fd.MapKey())
		if fd.MapValue().Message() != nil {
			nv := mp.NewValue()
			if depth < 3 {
				Populate(t, nv.Message(), depth+1)
			}
			mp.Set(k, nv)
		} else {
			mp.Set(k, drawScalar(t, fd.MapValue()))
		}
		return fmt.Sprintf("set %s[%v]", fd.Name(), k.Interface())
	case fd.Message() != nil:
		nm := r.NewField(fd)
		if depth < 3 && rapid.IntRange(0, 3).Draw(t, "emptymsg") != 0 {
			Populate(t, nm.Message(), depth+1)
		}
		r.Set(fd, nm)
		return fmt.Sprintf("set %s = new message", fd.Name())
	default:
		v := drawScalar(t, fd)
		r.Set(fd, v)
		return fmt.Sprintf("set %s = %v", fd.Name(), v.Interface())
	}
}

// Mutate applies one drawn mutation to r and returns its description.
func Mutate(t *rapid.T, r protoreflect.Message, depth int) string {
	fds := r.Descriptor().Fields()
	if fds.Len() == 0 {
		return "no fields"
	}
	fd := fds.Get(rapid.IntRange(0, fds.Len()-1).Draw(t, "field"))
	has := r.Has(fd)
	op := rapid.IntRange(0, 5).Draw(t, "mutop")
	switch {
	case op == 0 && has:
		r.Clear(fd)
		return "clear " + string(fd.Name())
	case fd.IsList() && has && op == 1:
		l := r.Mutable(fd).List()
		l.Truncate(l.Len() / 2)
		return "halve list " + string(fd.Name())
	case fd.IsList() && has && op == 2 && fd.Message() == nil:
		l := r.Mutable(fd).List()
		l.Set(rapid.IntRange(0, l.Len()-1).Draw(t, "li"), drawScalar(t, fd))
		return "replace element of " + string(fd.Name())
	case fd.IsList() && has && op == 2 && fd.Message() != nil && depth < 3:
		l := r.Mutable(fd).List()
		return string(fd.Name()) + "[i]." + Mutate(t, l.Get(rapid.IntRange(0, l.Len()-1).Draw(t, "li")).Message(), depth+1)
	case fd.IsMap() && has && op == 1:
		mp := r.Mutable(fd).Map()
		var first protoreflect.MapKey
		found := false
		var keys []string
		km := map[string]protoreflect.MapKey{}
		mp.Range(func(k protoreflect.MapKey, _ protoreflect.Value) bool {
			s := fmt.Sprint(k.Interface())
			keys = append(keys, s)
			km[s] = k
			return true
		})
		sort.Strings(keys)
		if len(keys) > 0 {
			first, found = km[keys[0]], true
		}
		if found {
			mp.Clear(first)
		}
		return "delete one entry of " + string(fd.Name())
	case !fd.IsList() && !fd.IsMap() && fd.Message() != nil && has && op <= 3 && depth < 3:
		return string(fd.Name()) + "." + Mutate(t, r.Mutable(fd).Message(), depth+1)
	}
	return setField(t, r, fd, depth)
}
