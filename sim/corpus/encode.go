package corpus

import (
	"math"
	"sort"

	"google.golang.org/protobuf/encoding/protowire"
	"google.golang.org/protobuf/reflect/protoreflect"
)

// Encode is the harness's own descriptor-driven reference encoder (written from the encoding
// specification on top of protowire): fields in number order, packed where the descriptor says so,
// map entries sorted by key, unknown fields appended. It calls neither csproto nor any generated or
// runtime marshal method.
func Encode(r protoreflect.Message) []byte {
	return appendMsg(nil, r)
}

func appendMsg(b []byte, r protoreflect.Message) []byte {
	var fs []fv
	r.Range(func(fd protoreflect.FieldDescriptor, v protoreflect.Value) bool {
		fs = append(fs, fv{fd, v})
		return true
	})
	sort.Slice(fs, func(i, j int) bool { return fs[i].fd.Number() < fs[j].fd.Number() })
	for _, f := range fs {
		fd, v := f.fd, f.v
		switch {
		case fd.IsList():
			l := v.List()
			if fd.IsPacked() && l.Len() > 0 {
				var p []byte
				for i := 0; i < l.Len(); i++ {
					p = appendScalar(p, fd, l.Get(i))
				}
				b = protowire.AppendTag(b, fd.Number(), protowire.BytesType)
				b = protowire.AppendBytes(b, p)
			} else {
				for i := 0; i < l.Len(); i++ {
					b = appendField(b, fd, l.Get(i))
				}
			}
		case fd.IsMap():
			type ent struct {
				k protoreflect.MapKey
				v protoreflect.Value
			}
			var es []ent
			v.Map().Range(func(k protoreflect.MapKey, mv protoreflect.Value) bool {
				es = append(es, ent{k, mv})
				return true
			})
			sort.Slice(es, func(i, j int) bool { return es[i].k.String() < es[j].k.String() })
			for _, e := range es {
				var p []byte
				p = appendField(p, fd.MapKey(), e.k.Value())
				p = appendField(p, fd.MapValue(), e.v)
				b = protowire.AppendTag(b, fd.Number(), protowire.BytesType)
				b = protowire.AppendBytes(b, p)
			}
		default:
			b = appendField(b, fd, v)
		}
	}
	return append(b, r.GetUnknown()...)
}

func wireType(fd protoreflect.FieldDescriptor) protowire.Type {
	switch fd.Kind() {
	case protoreflect.Fixed32Kind, protoreflect.Sfixed32Kind, protoreflect.FloatKind:
		return protowire.Fixed32Type
	case protoreflect.Fixed64Kind, protoreflect.Sfixed64Kind, protoreflect.DoubleKind:
		return protowire.Fixed64Type
	case protoreflect.StringKind, protoreflect.BytesKind, protoreflect.MessageKind:
		return protowire.BytesType
	case protoreflect.GroupKind:
		return protowire.StartGroupType
	}
	return protowire.VarintType
}

func appendField(b []byte, fd protoreflect.FieldDescriptor, v protoreflect.Value) []byte {
	b = protowire.AppendTag(b, fd.Number(), wireType(fd))
	return appendScalar(b, fd, v)
}

func appendScalar(b []byte, fd protoreflect.FieldDescriptor, v protoreflect.Value) []byte {
	switch fd.Kind() {
	case protoreflect.BoolKind:
		return protowire.AppendVarint(b, protowire.EncodeBool(v.Bool()))
	case protoreflect.EnumKind:
		return protowire.AppendVarint(b, uint64(int64(v.Enum())))
	case protoreflect.Int32Kind, protoreflect.Int64Kind:
		return protowire.AppendVarint(b, uint64(v.Int()))
	case protoreflect.Uint32Kind, protoreflect.Uint64Kind:
		return protowire.AppendVarint(b, v.Uint())
	case protoreflect.Sint32Kind, protoreflect.Sint64Kind:
		return protowire.AppendVarint(b, protowire.EncodeZigZag(v.Int()))
	case protoreflect.Fixed32Kind:
		return protowire.AppendFixed32(b, uint32(v.Uint()))
	case protoreflect.Sfixed32Kind:
		return protowire.AppendFixed32(b, uint32(v.Int()))
	case protoreflect.FloatKind:
		return protowire.AppendFixed32(b, math.Float32bits(float32(v.Float())))
	case protoreflect.Fixed64Kind:
		return protowire.AppendFixed64(b, v.Uint())
	case protoreflect.Sfixed64Kind:
		return protowire.AppendFixed64(b, uint64(v.Int()))
	case protoreflect.DoubleKind:
		return protowire.AppendFixed64(b, math.Float64bits(v.Float()))
	case protoreflect.StringKind:
		return protowire.AppendString(b, v.String())
	case protoreflect.BytesKind:
		return protowire.AppendBytes(b, v.Bytes())
	case protoreflect.MessageKind:
		return protowire.AppendBytes(b, appendMsg(nil, v.Message()))
	case protoreflect.GroupKind:
		b = appendMsg(b, v.Message())
		return protowire.AppendTag(b, fd.Number(), protowire.EndGroupType)
	}
	return b
}
