package corpus

import (
	"sort"

	"google.golang.org/protobuf/encoding/protowire"
	"google.golang.org/protobuf/reflect/protoreflect"
)

// NonCanonicalShapes scans an encoding against a message descriptor and names the ways in which it
// deviates from what a canonical writer emits (each is legal protobuf, but needs merge / last-wins /
// entry-shape handling in a reader). Used to attribute a reader disagreement to a root cause.
func NonCanonicalShapes(md protoreflect.MessageDescriptor, b []byte) []string {
	set := map[string]bool{}
	scan(md, b, set, 0)
	var out []string
	for k := range set {
		out = append(out, k)
	}
	sort.Strings(out)
	return out
}

func scan(md protoreflect.MessageDescriptor, b []byte, set map[string]bool, depth int) {
	if depth > 8 {
		return
	}
	seen := map[protoreflect.FieldNumber]int{}
	oneofSeen := map[string]protoreflect.FieldNumber{}
	lastNum := protoreflect.FieldNumber(0)
	for len(b) > 0 {
		num, typ, n := protowire.ConsumeTag(b)
		if n < 0 {
			return
		}
		b = b[n:]
		m := protowire.ConsumeFieldValue(num, typ, b)
		if m < 0 {
			return
		}
		val := b[:m]
		b = b[m:]
		fd := md.Fields().ByNumber(num)
		if fd == nil {
			continue
		}
		if num < lastNum {
			set["fields-out-of-number-order"] = true
		}
		lastNum = num
		seen[num]++
		if oo := fd.ContainingOneof(); oo != nil && !oo.IsSynthetic() {
			if prev, ok := oneofSeen[string(oo.Name())]; ok {
				if prev != num {
					set["oneof-set-more-than-once"] = true
				} else if fd.Message() != nil {
					set["message-field-repeated(merge-required)"] = true
				} else {
					set["singular-scalar-repeated(last-wins)"] = true
				}
			}
			oneofSeen[string(oo.Name())] = num
		}
		switch {
		case fd.IsMap():
			if typ != protowire.BytesType {
				set["wire-type-differs-from-schema"] = true
				continue
			}
			payload, k := protowire.ConsumeBytes(val)
			if k < 0 {
				continue
			}
			if !canonicalEntry(payload) {
				set["map-entry-not-key-then-value"] = true
			}
			if vfd := fd.MapValue(); vfd.Message() != nil {
				if vb := entryValue(payload); vb != nil {
					scan(vfd.Message(), vb, set, depth+1)
				}
			}
		case fd.IsList():
			if fd.Message() != nil {
				if typ == protowire.BytesType {
					if p, k := protowire.ConsumeBytes(val); k >= 0 {
						scan(fd.Message(), p, set, depth+1)
					}
				}
				continue
			}
			packable := fd.Kind() != protoreflect.StringKind && fd.Kind() != protoreflect.BytesKind
			if packable {
				if typ == protowire.BytesType && !fd.IsPacked() {
					set["packed-encoding-of-unpacked-field"] = true
				}
				if typ != protowire.BytesType && fd.IsPacked() {
					set["unpacked-encoding-of-packed-field"] = true
				}
				if typ == protowire.BytesType && seen[num] > 1 {
					set["packed-field-split-over-several-records"] = true
				}
			}
		case fd.Message() != nil:
			if seen[num] > 1 && realOneof(fd) == nil {
				set["message-field-repeated(merge-required)"] = true
			}
			if typ == protowire.BytesType {
				if p, k := protowire.ConsumeBytes(val); k >= 0 {
					scan(fd.Message(), p, set, depth+1)
				}
			}
		default:
			if seen[num] > 1 && realOneof(fd) == nil {
				set["singular-scalar-repeated(last-wins)"] = true
			}
		}
	}
}

// realOneof returns the containing oneof unless it is the synthetic one of a proto3 optional field.
func realOneof(fd protoreflect.FieldDescriptor) protoreflect.OneofDescriptor {
	if oo := fd.ContainingOneof(); oo != nil && !oo.IsSynthetic() {
		return oo
	}
	return nil
}

func canonicalEntry(p []byte) bool {
	want := protowire.Number(1)
	for len(p) > 0 {
		num, typ, n := protowire.ConsumeTag(p)
		if n < 0 {
			return false
		}
		m := protowire.ConsumeFieldValue(num, typ, p[n:])
		if m < 0 {
			return false
		}
		if num != want {
			return false
		}
		want++
		p = p[n+m:]
	}
	return want == 3
}

func entryValue(p []byte) []byte {
	var out []byte
	for len(p) > 0 {
		num, typ, n := protowire.ConsumeTag(p)
		if n < 0 {
			return out
		}
		m := protowire.ConsumeFieldValue(num, typ, p[n:])
		if m < 0 {
			return out
		}
		if num == 2 && typ == protowire.BytesType {
			if v, k := protowire.ConsumeBytes(p[n:]); k >= 0 {
				out = v
			}
		}
		p = p[n+m:]
	}
	return out
}
