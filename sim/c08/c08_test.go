// Package c08 checks C08: generated Unmarshal is total on damaged stored messages and never silently
// disagrees with the reference runtime.
//
// writer (the harness's reference encoder over a drawn message of a corpus type) -> medium (truncate, bit
// flip, inflate/deflate a length prefix, duplicate or drop a record; single faults enumerated exhaustively
// for small messages, combinations sampled) -> two readers: the regenerated Unmarshal and dynamicpb on the
// schema's own descriptor.
package c08

import (
	"encoding/hex"
	"fmt"
	"os"
	"runtime"
	"runtime/debug"
	"runtime/metrics"
	"strings"
	"testing"

	"google.golang.org/protobuf/proto"
	"google.golang.org/protobuf/reflect/protoreflect"
	"google.golang.org/protobuf/types/dynamicpb"
	"pgregory.net/rapid"

	"verifsim/corpus"
	"verifsim/rep"
	"verifsim/wirex"
)

var allocSample = []metrics.Sample{{Name: "/gc/heap/allocs:bytes"}}

func heapAllocs() uint64 {
	metrics.Read(allocSample)
	return allocSample[0].Value.Uint64()
}

type outcome struct {
	err   error
	pan   any
	stack []byte
	dig   string
	alloc uint64
}

func genRead(typ corpus.Type, b []byte) (o outcome) {
	m := typ.New()
	a0 := heapAllocs()
	func() {
		defer func() {
			if p := recover(); p != nil {
				o.pan, o.stack = p, debug.Stack()
			}
		}()
		o.err = m.(corpus.FM).Unmarshal(b)
	}()
	o.alloc = heapAllocs() - a0
	if o.pan == nil && o.err == nil {
		o.dig = corpus.Digest(m)
	}
	return
}

var opUnmarshal = "generated Unmarshal"

type variant struct {
	b     []byte
	desc  string
	kind  string
	build func() []byte // if set, b is built when the variant's turn comes
}

// refUnmarshal runs the reference reader; a panic inside protobuf-go's dynamic reader (seen on damaged map
// entries) counts as the reference rejecting the input.
func refUnmarshal(b []byte, d *dynamicpb.Message) (err error) {
	defer func() {
		if p := recover(); p != nil {
			err = fmt.Errorf("reference reader panicked: %v", p)
		}
	}()
	return (proto.UnmarshalOptions{}).Unmarshal(b, d)
}

func contains(xs []string, x string) bool {
	for _, y := range xs {
		if y == x {
			return true
		}
	}
	return false
}

func boundaries(b []byte) []wirex.Item {
	items, _, _ := wirex.Walk(b)
	return items
}

func runC08(t *rapid.T, w *rep.Worker) {
	typ := corpus.All[rapid.IntRange(0, len(corpus.All)-1).Draw(t, "type")]
	src := typ.New()
	if rapid.Bool().Draw(t, "sparse") {
		corpus.PopulateSparse(t, corpus.Wrap(src), rapid.IntRange(1, 3).Draw(t, "nsparse"))
	} else {
		corpus.Populate(t, corpus.Wrap(src), 0)
	}
	orig := corpus.Encode(corpus.Wrap(src))
	md, err := corpus.SchemaDescriptor(src)
	if err != nil {
		t.Fatalf("HARNESS: %v", err)
	}
	w.Begin(fmt.Sprintf("type=%s runtime=%s message=%x", typ, typ.Runtime, orig))
	w.MixS(typ.String())
	w.MixS(string(orig))
	var vars []variant
	exhaustive := len(orig) > 0 && len(orig) <= 160 && rapid.IntRange(0, 2).Draw(t, "exhaustive") != 0
	if exhaustive {
		vars = append(vars, variant{orig, "valid", "valid", nil})
		for k := 0; k < len(orig); k++ {
			vars = append(vars, variant{wirex.Truncate(orig, k), fmt.Sprintf("truncate@%d", k), wirex.FTruncate, nil})
		}
		for i := 0; i < len(orig); i++ {
			for bit := uint(0); bit < 8; bit++ {
				vars = append(vars, variant{wirex.FlipBit(orig, i, bit), fmt.Sprintf("bitflip@%d.%d", i, bit), wirex.FBitFlip, nil})
			}
		}
	} else {
		vars = append(vars, variant{orig, "valid", "valid", nil})
		b := orig
		desc := ""
		kind := "valid"
		for k, n := 0, rapid.IntRange(0, 3).Draw(t, "nfaults"); k < n && len(b) > 0; k++ {
			items := boundaries(b)
			switch rapid.IntRange(0, 5).Draw(t, "fault") {
			case 0:
				at := rapid.IntRange(0, len(b)-1).Draw(t, "trunc")
				b, kind = wirex.Truncate(b, at), wirex.FTruncate
				desc += fmt.Sprintf(" truncate@%d", at)
			case 1:
				at, bit := rapid.IntRange(0, len(b)-1).Draw(t, "flip"), rapid.IntRange(0, 7).Draw(t, "bit")
				b, kind = wirex.FlipBit(b, at, uint(bit)), wirex.FBitFlip
				desc += fmt.Sprintf(" bitflip@%d.%d", at, bit)
			case 2, 3:
				var ld []wirex.Item
				for _, it := range items {
					if it.WT == wirex.Bytes {
						ld = append(ld, it)
					}
				}
				if len(ld) == 0 {
					continue
				}
				// half of the time aim at a packed numeric field: its declared length sizes an allocation
				if rapid.Bool().Draw(t, "aimpacked") {
					var pk []wirex.Item
					for _, it := range ld {
						if fd := md.Fields().ByNumber(protoreflect.FieldNumber(it.Tag)); fd != nil && fd.IsList() && fd.Message() == nil &&
							fd.Kind() != protoreflect.StringKind && fd.Kind() != protoreflect.BytesKind {
							pk = append(pk, it)
						}
					}
					if len(pk) > 0 {
						ld = pk
					}
				}
				it := ld[rapid.IntRange(0, len(ld)-1).Draw(t, "lenwhich")]
				_, kn := wirex.ReadVarint(b[it.Start:])
				lenStart := it.Start + kn
				opts := []uint64{it.U + 1, it.U + 7, uint64(len(b)), 1<<31 - 1, 1<<31 - 1, 1<<31 - 8, 1 << 30, 1 << 31, 1 << 40, 1 << 63, it.U / 2, 0}
				nl := opts[rapid.IntRange(0, len(opts)-1).Draw(t, "lento")]
				nb := append([]byte{}, b[:lenStart]...)
				nb = wirex.AppendVarint(nb, nl)
				b = append(nb, b[it.PayStart:]...)
				kind = wirex.FInflate
				if nl < it.U {
					kind = wirex.FDeflate
				}
				if fd := md.Fields().ByNumber(protoreflect.FieldNumber(it.Tag)); fd != nil && nl >= 1<<20 {
					shape := "singular"
					if fd.IsMap() {
						shape = "map"
					} else if fd.IsList() {
						shape = "repeated"
					}
					w.Probe(fmt.Sprintf("huge_declared_length_on:%s/%s", fd.Kind(), shape))
				}
				desc += fmt.Sprintf(" len@%d:=%d", lenStart, nl)
			case 4:
				if len(items) == 0 {
					continue
				}
				it := items[rapid.IntRange(0, len(items)-1).Draw(t, "dupwhich")]
				at := items[rapid.IntRange(0, len(items)-1).Draw(t, "dupat")].Start
				rec := append([]byte{}, b[it.Start:it.End]...)
				b = append(append(append([]byte{}, b[:at]...), rec...), b[at:]...)
				kind = wirex.FDupRec
				desc += fmt.Sprintf(" dup[%d:%d]@%d", it.Start, it.End, at)
			default:
				if len(items) == 0 {
					continue
				}
				it := items[rapid.IntRange(0, len(items)-1).Draw(t, "dropwhich")]
				b = append(append([]byte{}, b[:it.Start]...), b[it.End:]...)
				kind = wirex.FDropRec
				desc += fmt.Sprintf(" drop[%d:%d]", it.Start, it.End)
			}
		}
		vars = append(vars, variant{b, "faults:" + desc, kind, nil})
	}
	// declared-length sweep: every top-level length prefix of the message set to every value of a fixed list
	if len(orig) > 0 && (exhaustive || rapid.Bool().Draw(t, "lensweep")) {
		for _, it := range boundaries(orig) {
			if it.WT != wirex.Bytes {
				continue
			}
			_, kn := wirex.ReadVarint(orig[it.Start:])
			for _, nl := range []uint64{it.U + 1, uint64(len(orig)), 1 << 20, 1 << 24, 1 << 27, 1 << 30, 1<<31 - 1, 1 << 31, 1 << 63,
				// values that change sign or lose their high bits when a reader narrows them: 2^32-1, 2^32, 2^32 + the true
				// length, 2^63-1, and the sign-extended forms of -1, -2 and the smallest int32
				1<<32 - 1, 1 << 32, 1<<32 + it.U, 1<<63 - 1, 1<<64 - 1, 1<<64 - 2, 1<<64 - 1<<31,
				// and multiples of the fixed element sizes just below 2^63, where "offset + length" wraps
				1<<63 - 4, 1<<63 - 8, 1<<63 - 16} {
				// built when its turn comes: a long message has hundreds of prefixes, and nineteen copies of it per
				// prefix held at once would be the harness's own out-of-memory
				it, kn, nl := it, kn, nl
				vars = append(vars, variant{nil, fmt.Sprintf("len@%d:=%d", it.Start+kn, nl), wirex.FInflate, func() []byte {
					nb := append([]byte{}, orig[:it.Start+kn]...)
					nb = wirex.AppendVarint(nb, nl)
					return append(nb, orig[it.PayStart:]...)
				}})
			}
		}
	}
	judgedBoth := 0
	for _, v := range vars {
		if v.build != nil {
			v.b = v.build()
		}
		if w.Tracing() {
			w.Trace("about to decode %s (%s, %d bytes): %x", typ, v.desc, len(v.b), clipHex(v.b))
		}
		w.WatchBegin(&opUnmarshal)
		g := genRead(typ, v.b)
		w.WatchEnd()
		w.StepsTot++
		if v.kind != "valid" {
			w.Fault(v.kind)
		}
		if g.pan != nil {
			w.Step("%s -> generated Unmarshal panicked", v.desc)
			w.Violate(rep.PanicSig("Unmarshal|"+typ.Runtime, g.pan, g.stack), fmt.Sprintf("%s input %x (%s): %v", typ, v.b, v.desc, g.pan))
			break
		}
		// allocation: linear in the input with a generous constant; a suspicious reading is confirmed by repetition
		limit := uint64(4096*len(v.b) + 1<<20)
		al := g.alloc
		for r := 0; r < 3 && al > limit && al < limit+(32<<20); r++ { // far over the limit is no accounting noise; do not repeat a huge allocation
			// confirm with the exact, stop-the-world counter (runtime/metrics attributes small allocations per span refill)
			var m0, m1 runtime.MemStats
			runtime.ReadMemStats(&m0)
			_ = genRead(typ, v.b)
			runtime.ReadMemStats(&m1)
			if a := m1.TotalAlloc - m0.TotalAlloc; a < al {
				al = a
			}
		}
		if al > limit {
			w.Step("%s -> allocated %d bytes", v.desc, al)
			w.Violate("alloc-out-of-proportion|"+typ.Runtime, fmt.Sprintf("%s input %x (%d bytes, %s): generated Unmarshal allocated %d bytes (limit %d)", typ, v.b, len(v.b), v.desc, al, limit))
			break
		}
		d := dynamicpb.NewMessage(md)
		rerr := refUnmarshal(v.b, d)
		if g.err != nil {
			w.Probe("generated_rejects")
			if v.kind == "valid" && rerr == nil {
				// the generated reader rejects a canonical encoding the reference accepts: a pure function of the
				// input (C06's encoding clause, not claimed; C08 lets a reader reject) - counted, not judged
				w.Probe("undamaged_message_rejected_by_generated_reader(not judged)")
			}
			continue
		}
		if rerr != nil {
			w.Probe("reference_rejects_generated_accepts(not judged)")
			continue
		}
		judgedBoth++
		if rd := corpus.DigestReflect(d); rd != g.dig {
			w.Step("%s -> both readers accept", v.desc)
			// attribute the disagreement to the most specific non-canonical shape present in the input
			shapes := corpus.NonCanonicalShapes(md, v.b)
			cls := "canonical-shape"
			if len(shapes) > 0 {
				cls = strings.Join(shapes, "+")
				for _, primary := range []string{"map-entry-not-key-then-value", "message-field-repeated(merge-required)", "oneof-set-more-than-once",
					"packed-field-split-over-several-records", "packed-encoding-of-unpacked-field", "unpacked-encoding-of-packed-field", "singular-scalar-repeated(last-wins)", "wire-type-differs-from-schema"} {
					if contains(shapes, primary) {
						cls = primary
						break
					}
				}
			}
			known := w.Violate("silent-disagreement|"+cls, fmt.Sprintf("%s input %x (%s): generated Unmarshal gives %.300s, the reference runtime gives %.300s", typ, v.b, v.desc, g.dig, rd))
			if known {
				continue
			}
			break
		}
	}
	w.Probes["both_accept_and_agree"] += int64(judgedBoth)
	if exhaustive {
		w.Probe("messages_with_exhaustive_single_fault_enumeration")
	}
	if len(vars) > 0 {
		w.Note("%d variants (%s)", len(vars), map[bool]string{true: "every truncation offset and single-bit flip", false: "sampled fault combination"}[exhaustive])
		w.EndNontrivial()
	}
	w.State(typ.Runtime + "|" + typ.Syntax)
	if sig := w.Pending(); sig != "" {
		t.Fatalf("%s", sig)
	}
}

func clipHex(b []byte) []byte {
	if len(b) > 4096 {
		return b[:4096]
	}
	return b
}

// TestC08One decodes one input of one type in a process of its own (driver: isolated confirmation after a worker
// ran out of memory - was it this decode, or the harness?). VERIF_C08_ONE = "<type> <hex>".
func TestC08One(t *testing.T) {
	spec := os.Getenv("VERIF_C08_ONE")
	if spec == "" {
		t.Skip("driver helper")
	}
	name, hx, _ := strings.Cut(spec, " ")
	b, err := hex.DecodeString(hx)
	if err != nil {
		t.Fatalf("HARNESS: %v", err)
	}
	for _, typ := range corpus.All {
		if typ.String() == name {
			g := genRead(typ, b)
			fmt.Printf("ONE alloc=%d limit=%d panicked=%v\n", g.alloc, 4096*len(b)+1<<20, g.pan != nil)
			return
		}
	}
	t.Fatalf("HARNESS: no corpus type %q", name)
}

func TestC08Medium(t *testing.T) {
	w := rep.NewWorker(t, "C08", "medium")
	defer w.Finish()
	rapid.Check(t, func(rt *rapid.T) { runC08(rt, w) })
}
