// Package wirex holds the harness's own view of the protobuf wire format: a record-level writer with a
// boundary log, an independent walker written from the encoding specification, the faulty "medium"
// that damages stored bytes, and value digests. None of it calls csproto.
package wirex

import (
	"encoding/binary"
	"encoding/hex"
	"fmt"
	"math"
	"sort"
	"strings"
)

// Wire types.
const (
	Varint  = 0
	Fixed64 = 1
	Bytes   = 2
	SGroup  = 3
	EGroup  = 4
	Fixed32 = 5
)

// Rec is one field record.
type Rec struct {
	Tag int
	WT  int
	U   uint64 // varint / fixed value
	B   []byte // payload for Bytes (if Sub == nil)
	Sub []Rec  // nested message payload (encoded on the fly)
}

// Span describes where a record landed in the encoded message.
type Span struct {
	Depth            int
	Tag, WT          int
	KeyStart, KeyEnd int // key varint
	LenStart, LenEnd int // length prefix (Bytes only; else equal)
	PayStart, PayEnd int
}

// AppendVarint appends v in base-128 varint form.
func AppendVarint(b []byte, v uint64) []byte {
	for v >= 0x80 {
		b = append(b, byte(v)|0x80)
		v >>= 7
	}
	return append(b, byte(v))
}

// Encode writes recs and returns the bytes plus the boundary log (absolute offsets, all depths).
func Encode(recs []Rec) ([]byte, []Span) {
	var spans []Span
	b := encode(nil, recs, 0, &spans)
	return b, spans
}

func encode(b []byte, recs []Rec, depth int, spans *[]Span) []byte {
	for _, r := range recs {
		sp := Span{Depth: depth, Tag: r.Tag, WT: r.WT, KeyStart: len(b)}
		b = AppendVarint(b, uint64(r.Tag)<<3|uint64(r.WT))
		sp.KeyEnd = len(b)
		sp.LenStart, sp.LenEnd = len(b), len(b)
		switch r.WT {
		case Varint:
			sp.PayStart = len(b)
			b = AppendVarint(b, r.U)
		case Fixed64:
			sp.PayStart = len(b)
			b = binary.LittleEndian.AppendUint64(b, r.U)
		case Fixed32:
			sp.PayStart = len(b)
			b = binary.LittleEndian.AppendUint32(b, uint32(r.U))
		case Bytes:
			payload := r.B
			var sub []Span
			if r.Sub != nil {
				payload = encode(nil, r.Sub, depth+1, &sub)
			}
			b = AppendVarint(b, uint64(len(payload)))
			sp.LenEnd = len(b)
			sp.PayStart = len(b)
			for i := range sub {
				sub[i].KeyStart += sp.PayStart
				sub[i].KeyEnd += sp.PayStart
				sub[i].LenStart += sp.PayStart
				sub[i].LenEnd += sp.PayStart
				sub[i].PayStart += sp.PayStart
				sub[i].PayEnd += sp.PayStart
			}
			b = append(b, payload...)
			sp.PayEnd = len(b)
			*spans = append(*spans, sp)
			*spans = append(*spans, sub...)
			continue
		default:
			sp.PayStart = len(b) // groups: key only
		}
		sp.PayEnd = len(b)
		*spans = append(*spans, sp)
	}
	return b
}

// ReadVarint decodes a varint per the spec: at most 10 bytes, the 10th contributing one bit.
// It returns n == 0 if none fits.
func ReadVarint(b []byte) (v uint64, n int) {
	for i := 0; i < len(b) && i < 10; i++ {
		c := b[i]
		if i == 9 && c > 1 {
			return 0, 0
		}
		v |= uint64(c&0x7f) << (7 * uint(i))
		if c < 0x80 {
			return v, i + 1
		}
	}
	return 0, 0
}

// Item is one field as found by Walk.
type Item struct {
	Tag, WT    int
	Start, End int // whole field incl. key
	PayStart   int // start of payload (after key and length prefix)
	U          uint64
}

// Walk parses one message level. ok is false if the bytes are not a well-formed sequence of fields
// of the four supported wire types (groups make it return ok=false with group=true).
func Walk(b []byte) (items []Item, ok bool, group bool) {
	off := 0
	for off < len(b) {
		k, n := ReadVarint(b[off:])
		if n == 0 {
			return items, false, false
		}
		tag, wt := int(k>>3), int(k&7)
		if k>>3 == 0 || k>>3 > (1<<29-1) {
			return items, false, false
		}
		it := Item{Tag: tag, WT: wt, Start: off}
		p := off + n
		switch wt {
		case Varint:
			v, m := ReadVarint(b[p:])
			if m == 0 {
				return items, false, false
			}
			it.PayStart, it.U, it.End = p, v, p+m
		case Fixed64:
			if len(b)-p < 8 {
				return items, false, false
			}
			it.PayStart, it.U, it.End = p, binary.LittleEndian.Uint64(b[p:]), p+8
		case Fixed32:
			if len(b)-p < 4 {
				return items, false, false
			}
			it.PayStart, it.U, it.End = p, uint64(binary.LittleEndian.Uint32(b[p:])), p+4
		case Bytes:
			l, m := ReadVarint(b[p:])
			if m == 0 || l > uint64(len(b)-p-m) {
				return items, false, false
			}
			it.PayStart, it.U, it.End = p+m, l, p+m+int(l)
		case SGroup, EGroup:
			return items, false, true
		default:
			return items, false, false
		}
		items = append(items, it)
		off = it.End
	}
	return items, true, false
}

// Digest renders a value canonically: floats by bit pattern, byte slices in hex, nil and empty
// slices alike, no addresses.
func Digest(v any) string {
	var sb strings.Builder
	digest(&sb, v)
	return sb.String()
}

func digest(sb *strings.Builder, v any) {
	switch x := v.(type) {
	case nil:
		sb.WriteString("nil")
	case bool:
		fmt.Fprintf(sb, "b:%v", x)
	case string:
		fmt.Fprintf(sb, "s:%s", hex.EncodeToString([]byte(x)))
	case []byte:
		fmt.Fprintf(sb, "y:%s", hex.EncodeToString(x))
	case int32:
		fmt.Fprintf(sb, "i32:%d", x)
	case int64:
		fmt.Fprintf(sb, "i64:%d", x)
	case uint32:
		fmt.Fprintf(sb, "u32:%d", x)
	case uint64:
		fmt.Fprintf(sb, "u64:%d", x)
	case int:
		fmt.Fprintf(sb, "i:%d", x)
	case float32:
		fmt.Fprintf(sb, "f32:%08x", math.Float32bits(x))
	case float64:
		fmt.Fprintf(sb, "f64:%016x", math.Float64bits(x))
	case []bool:
		sb.WriteString("[")
		for _, e := range x {
			digest(sb, e)
			sb.WriteByte(',')
		}
		sb.WriteString("]")
	case []string:
		sb.WriteString("[")
		for _, e := range x {
			digest(sb, e)
			sb.WriteByte(',')
		}
		sb.WriteString("]")
	case [][]byte:
		sb.WriteString("[")
		for _, e := range x {
			digest(sb, e)
			sb.WriteByte(',')
		}
		sb.WriteString("]")
	case []int32:
		sb.WriteString("[")
		for _, e := range x {
			digest(sb, e)
			sb.WriteByte(',')
		}
		sb.WriteString("]")
	case []int64:
		sb.WriteString("[")
		for _, e := range x {
			digest(sb, e)
			sb.WriteByte(',')
		}
		sb.WriteString("]")
	case []uint32:
		sb.WriteString("[")
		for _, e := range x {
			digest(sb, e)
			sb.WriteByte(',')
		}
		sb.WriteString("]")
	case []uint64:
		sb.WriteString("[")
		for _, e := range x {
			digest(sb, e)
			sb.WriteByte(',')
		}
		sb.WriteString("]")
	case []float32:
		sb.WriteString("[")
		for _, e := range x {
			digest(sb, e)
			sb.WriteByte(',')
		}
		sb.WriteString("]")
	case []float64:
		sb.WriteString("[")
		for _, e := range x {
			digest(sb, e)
			sb.WriteByte(',')
		}
		sb.WriteString("]")
	case []any:
		sb.WriteString("[")
		for _, e := range x {
			digest(sb, e)
			sb.WriteByte(',')
		}
		sb.WriteString("]")
	case map[string]any:
		keys := make([]string, 0, len(x))
		for k := range x {
			keys = append(keys, k)
		}
		sort.Strings(keys)
		sb.WriteString("{")
		for _, k := range keys {
			sb.WriteString(k)
			sb.WriteByte('=')
			digest(sb, x[k])
			sb.WriteByte(';')
		}
		sb.WriteString("}")
	default:
		fmt.Fprintf(sb, "?%T:%v", v, v)
	}
}

// Fault kinds applied by the medium.
const (
	FTruncate = "truncate"
	FBitFlip  = "bitflip"
	FInflate  = "inflate_len"
	FDeflate  = "deflate_len"
	FDupRec   = "dup_record"
	FDropRec  = "drop_record"
)

// Truncate returns b[:k] in a fresh array.
func Truncate(b []byte, k int) []byte {
	return append([]byte(nil), b[:k]...)
}

// FlipBit returns a copy of b with one bit flipped.
func FlipBit(b []byte, i int, bit uint) []byte {
	c := append([]byte(nil), b...)
	c[i] ^= 1 << (bit & 7)
	return c
}

// ReplaceLen rewrites the length prefix of span sp with newLen (re-encoding the varint), keeping the
// rest of the bytes. Only meaningful for top-level spans (nested parents are not re-sized).
func ReplaceLen(b []byte, sp Span, newLen uint64) []byte {
	out := append([]byte(nil), b[:sp.LenStart]...)
	out = AppendVarint(out, newLen)
	return append(out, b[sp.LenEnd:]...)
}
