// Package lazysim holds what the lazyproto checks (C14, C15, C10) share: generators for messages and
// definitions, the option space, the accessor table, error classes and the pristine-decoder oracle.
package lazysim

import (
	"errors"
	"fmt"
	"sort"
	"strings"
	"sync/atomic"

	"github.com/CrowdStrike/csproto"
	"github.com/CrowdStrike/csproto/lazyproto"
	"pgregory.net/rapid"

	"verifsim/wirex"
)

// Tags used by the message universe. Canonical wire type per tag; generators deviate sometimes.
var Tags = []int{1, 2, 3, 4, 5, 6, 7, 200}

var canonWT = map[int]int{1: wirex.Varint, 2: wirex.Bytes, 3: wirex.Bytes, 4: wirex.Fixed32, 5: wirex.Fixed64, 6: wirex.Bytes, 7: wirex.Varint, 200: wirex.Varint}

// GenMsg draws one message (record list). mark, if non-zero, is folded into values so that every
// client/input carries recognisable data.
func GenMsg(t *rapid.T, depth int, maxRecs int, mark uint64, label string) []wirex.Rec {
	n := rapid.IntRange(0, maxRecs).Draw(t, label+".nrec")
	recs := make([]wirex.Rec, 0, n)
	// shape: 0 = any tag; 1 = nest-heavy (most records are occurrences of the nested field 3);
	// 2 = repeat-heavy (most records repeat one scalar tag) - so repeat counts cross buffer limits
	shape := rapid.IntRange(0, 3).Draw(t, "shape")
	hot := Tags[rapid.IntRange(0, len(Tags)-1).Draw(t, "hot")]
	for i := 0; i < n; i++ {
		tag := Tags[rapid.IntRange(0, len(Tags)-1).Draw(t, "tag")]
		if shape == 1 && rapid.IntRange(0, 3).Draw(t, "nesthot") != 0 {
			tag = 3
		} else if shape == 2 && rapid.IntRange(0, 3).Draw(t, "rephot") != 0 {
			tag = hot
		}
		wt := canonWT[tag]
		if rapid.IntRange(0, 15).Draw(t, "wtdev") == 15 {
			wt = []int{wirex.Varint, wirex.Fixed64, wirex.Bytes, wirex.Fixed32}[rapid.IntRange(0, 3).Draw(t, "wt")]
		}
		r := wirex.Rec{Tag: tag, WT: wt}
		switch wt {
		case wirex.Varint:
			r.U = genU64(t) ^ mark
		case wirex.Fixed32:
			r.U = uint64(uint32(genU64(t) ^ mark))
		case wirex.Fixed64:
			r.U = genU64(t) ^ mark
		case wirex.Bytes:
			switch {
			case tag == 3 && depth < 3 && rapid.IntRange(0, 7).Draw(t, "nestraw") != 7:
				r.Sub = GenMsg(t, depth+1, maxRecs/2+1, mark, label)
				if r.Sub == nil {
					r.Sub = []wirex.Rec{}
				}
			case tag == 6:
				k := rapid.IntRange(0, 5).Draw(t, "npacked")
				for j := 0; j < k; j++ {
					r.B = wirex.AppendVarint(r.B, genU64(t)^mark)
				}
			default:
				if rapid.IntRange(0, 11).Draw(t, "bigbytes") == 0 {
					// now and then a payload around the sizes code tends to switch behaviour at, which also makes the
					// whole message long
					sizes := []int{127, 128, 255, 256, 1024, 4095, 4096, 4097, 5000, 16384, 70000}
					r.B = make([]byte, sizes[rapid.IntRange(0, len(sizes)-1).Draw(t, "nbig")])
					for j := range r.B {
						r.B[j] = byte('A'+j%23) ^ byte(mark)
					}
					break
				}
				k := rapid.IntRange(0, 6).Draw(t, "nbytes")
				r.B = make([]byte, k)
				for j := range r.B {
					r.B[j] = byte(rapid.IntRange(0, 255).Draw(t, "byte")) ^ byte(mark)
				}
			}
		}
		recs = append(recs, r)
	}
	return recs
}

func genU64(t *rapid.T) uint64 {
	switch rapid.IntRange(0, 5).Draw(t, "ucls") {
	case 0:
		return uint64(rapid.IntRange(0, 127).Draw(t, "u7"))
	case 1:
		return uint64(rapid.IntRange(0, 1<<20).Draw(t, "u20"))
	case 2:
		return uint64(rapid.Uint32().Draw(t, "u32"))
	case 3:
		return ^uint64(0) - uint64(rapid.IntRange(0, 3).Draw(t, "neg"))
	default:
		return rapid.Uint64().Draw(t, "u64")
	}
}

// GenDef draws a definition over the tag universe. The result is never empty at the top level.
func GenDef(t *rapid.T, depth int) lazyproto.Def {
	d := lazyproto.NewDef()
	for _, tag := range Tags {
		if rapid.IntRange(0, 2).Draw(t, "deftag") == 0 {
			continue
		}
		if tag == 3 && depth < 3 && rapid.Bool().Draw(t, "defnest") {
			d[3] = GenDef(t, depth+1)
			if rapid.IntRange(0, 3).Draw(t, "defneg") == 0 {
				d[-3] = nil
			}
			continue
		}
		d[tag] = nil
	}
	if len(d) == 0 {
		d[1] = nil
	}
	return d
}

// DefString renders a definition deterministically.
func DefString(d lazyproto.Def) string {
	if d == nil {
		return "-"
	}
	keys := make([]int, 0, len(d))
	for k := range d {
		keys = append(keys, k)
	}
	sort.Ints(keys)
	var sb strings.Builder
	sb.WriteString("{")
	for i, k := range keys {
		if i > 0 {
			sb.WriteString(" ")
		}
		fmt.Fprintf(&sb, "%d", k)
		if d[k] != nil {
			sb.WriteString(":" + DefString(d[k]))
		}
	}
	sb.WriteString("}")
	return sb.String()
}

// Options is one point of the option space.
type Options struct {
	PreModes  []bool // WithMode calls given BEFORE the final one (true = fast); the last WithMode wins
	Fast      bool
	MaxBuffer int // -1 = option not given
	Filter    int // 0 none, 1 halve, 2 to zero, 3 negative, 4 identity
}

// GenOptions draws the option tuple.
func GenOptions(t *rapid.T) Options {
	var pre []bool
	for i, n := 0, []int{0, 0, 0, 1, 2}[rapid.IntRange(0, 4).Draw(t, "npremodes")]; i < n; i++ {
		pre = append(pre, rapid.Bool().Draw(t, "premode"))
	}
	return Options{
		PreModes:  pre,
		Fast:      rapid.Bool().Draw(t, "fast"),
		MaxBuffer: []int{-1, 0, 1, 2, 3, 64}[rapid.IntRange(0, 5).Draw(t, "maxbuf")],
		Filter:    rapid.IntRange(0, 4).Draw(t, "filter"),
	}
}

func (o Options) String() string {
	m := "safe"
	if o.Fast {
		m = "fast"
	}
	if len(o.PreModes) > 0 {
		m = fmt.Sprintf("%s(after %v)", m, o.PreModes)
	}
	return fmt.Sprintf("mode=%s maxbuf=%d filter=%s", m, o.MaxBuffer, [...]string{"none", "halve", "zero", "negative", "identity"}[o.Filter])
}

// FilterCalls counts invocations of the buffer filter (probe).
var FilterCalls atomic.Int64

// Build turns Options into lazyproto options.
func (o Options) Build() []lazyproto.Option {
	var opts []lazyproto.Option
	for _, f := range o.PreModes {
		if f {
			opts = append(opts, lazyproto.WithMode(csproto.DecoderModeFast))
		} else {
			opts = append(opts, lazyproto.WithMode(csproto.DecoderModeSafe))
		}
	}
	if o.Fast {
		opts = append(opts, lazyproto.WithMode(csproto.DecoderModeFast))
	} else if len(o.PreModes) > 0 {
		opts = append(opts, lazyproto.WithMode(csproto.DecoderModeSafe))
	}
	if o.MaxBuffer >= 0 {
		opts = append(opts, lazyproto.WithMaxBufferSize(o.MaxBuffer))
	}
	switch o.Filter {
	case 1:
		opts = append(opts, lazyproto.WithBufferFilterFunc(func(c int) int { FilterCalls.Add(1); return c / 2 }))
	case 2:
		opts = append(opts, lazyproto.WithBufferFilterFunc(func(c int) int { FilterCalls.Add(1); return 0 }))
	case 3:
		opts = append(opts, lazyproto.WithBufferFilterFunc(func(c int) int { FilterCalls.Add(1); return -1 }))
	case 4:
		opts = append(opts, lazyproto.WithBufferFilterFunc(func(c int) int { FilterCalls.Add(1); return c }))
	}
	return opts
}

// Accessor is one typed accessor of DecodeResult.
type Accessor struct {
	Name string
	Call func(r *lazyproto.DecodeResult, tag int) (any, error)
	// FD is the same accessor on a FieldData obtained separately.
	FD func(fd *lazyproto.FieldData) (any, error)
}

func acc[T any](name string, f func(*lazyproto.DecodeResult, int) (T, error), g func(*lazyproto.FieldData) (T, error)) Accessor {
	return Accessor{Name: name,
		Call: func(r *lazyproto.DecodeResult, tag int) (any, error) { v, err := f(r, tag); return v, err },
		FD:   func(fd *lazyproto.FieldData) (any, error) { v, err := g(fd); return v, err }}
}

// Accessors lists all 24 typed accessors.
var Accessors = []Accessor{
	acc("BoolValue", (*lazyproto.DecodeResult).BoolValue, (*lazyproto.FieldData).BoolValue),
	acc("BoolValues", (*lazyproto.DecodeResult).BoolValues, (*lazyproto.FieldData).BoolValues),
	acc("BytesValue", (*lazyproto.DecodeResult).BytesValue, (*lazyproto.FieldData).BytesValue),
	acc("BytesValues", (*lazyproto.DecodeResult).BytesValues, (*lazyproto.FieldData).BytesValues),
	acc("Fixed32Value", (*lazyproto.DecodeResult).Fixed32Value, (*lazyproto.FieldData).Fixed32Value),
	acc("Fixed32Values", (*lazyproto.DecodeResult).Fixed32Values, (*lazyproto.FieldData).Fixed32Values),
	acc("Fixed64Value", (*lazyproto.DecodeResult).Fixed64Value, (*lazyproto.FieldData).Fixed64Value),
	acc("Fixed64Values", (*lazyproto.DecodeResult).Fixed64Values, (*lazyproto.FieldData).Fixed64Values),
	acc("Float32Value", (*lazyproto.DecodeResult).Float32Value, (*lazyproto.FieldData).Float32Value),
	acc("Float32Values", (*lazyproto.DecodeResult).Float32Values, (*lazyproto.FieldData).Float32Values),
	acc("Float64Value", (*lazyproto.DecodeResult).Float64Value, (*lazyproto.FieldData).Float64Value),
	acc("Float64Values", (*lazyproto.DecodeResult).Float64Values, (*lazyproto.FieldData).Float64Values),
	acc("Int32Value", (*lazyproto.DecodeResult).Int32Value, (*lazyproto.FieldData).Int32Value),
	acc("Int32Values", (*lazyproto.DecodeResult).Int32Values, (*lazyproto.FieldData).Int32Values),
	acc("Int64Value", (*lazyproto.DecodeResult).Int64Value, (*lazyproto.FieldData).Int64Value),
	acc("Int64Values", (*lazyproto.DecodeResult).Int64Values, (*lazyproto.FieldData).Int64Values),
	acc("SInt32Value", (*lazyproto.DecodeResult).SInt32Value, (*lazyproto.FieldData).SInt32Value),
	acc("SInt32Values", (*lazyproto.DecodeResult).SInt32Values, (*lazyproto.FieldData).SInt32Values),
	acc("SInt64Value", (*lazyproto.DecodeResult).SInt64Value, (*lazyproto.FieldData).SInt64Value),
	acc("SInt64Values", (*lazyproto.DecodeResult).SInt64Values, (*lazyproto.FieldData).SInt64Values),
	acc("StringValue", (*lazyproto.DecodeResult).StringValue, (*lazyproto.FieldData).StringValue),
	acc("StringValues", (*lazyproto.DecodeResult).StringValues, (*lazyproto.FieldData).StringValues),
	acc("UInt32Value", (*lazyproto.DecodeResult).UInt32Value, (*lazyproto.FieldData).UInt32Value),
	acc("UInt32Values", (*lazyproto.DecodeResult).UInt32Values, (*lazyproto.FieldData).UInt32Values),
	acc("UInt64Value", (*lazyproto.DecodeResult).UInt64Value, (*lazyproto.FieldData).UInt64Value),
	acc("UInt64Values", (*lazyproto.DecodeResult).UInt64Values, (*lazyproto.FieldData).UInt64Values),
}

// ErrClass maps an error to the class the property names, plus its text (self-differential oracles
// compare the same code with itself, so text equality is sound).
func ErrClass(err error) string {
	if err == nil {
		return "ok"
	}
	var wm *lazyproto.WireTypeMismatchError
	cls := "other"
	switch {
	case errors.Is(err, lazyproto.ErrNestingNotDefined):
		cls = "nesting-not-defined"
	case errors.Is(err, lazyproto.ErrTagNotDefined):
		cls = "tag-not-defined"
	case errors.Is(err, lazyproto.ErrTagNotFound):
		cls = "tag-not-found"
	case errors.As(err, &wm):
		cls = "wiretype-mismatch"
	case errors.Is(err, csproto.ErrValueOverflow):
		cls = "overflow"
	}
	return cls + ":" + err.Error()
}

// Nav is one navigation step from a result to a nested result.
type Nav struct {
	Tag   int
	Multi bool // NestedResults(tag)[Idx] instead of NestedResult(tag)
	Idx   int
}

func (n Nav) String() string {
	if n.Multi {
		return fmt.Sprintf("NestedResults(%d)[%d]", n.Tag, n.Idx)
	}
	return fmt.Sprintf("NestedResult(%d)", n.Tag)
}

// Navigate applies path to r. It returns the class of the first error met.
func Navigate(r *lazyproto.DecodeResult, path []Nav) (*lazyproto.DecodeResult, string) {
	for _, n := range path {
		if n.Multi {
			rs, err := r.NestedResults(n.Tag)
			if err != nil {
				return nil, ErrClass(err)
			}
			if n.Idx >= len(rs) {
				return nil, "index-out-of-results"
			}
			r = rs[n.Idx]
		} else {
			nr, err := r.NestedResult(n.Tag)
			if err != nil {
				return nil, ErrClass(err)
			}
			r = nr
		}
	}
	return r, "ok"
}

// Outcome is what a user observes from one accessor call.
type Outcome struct {
	Val string // wirex.Digest of the value
	Err string // ErrClass
}

func (o Outcome) String() string { return o.Err + " " + o.Val }

// Observe runs accessor a for tag on r.
func Observe(r *lazyproto.DecodeResult, a Accessor, tag int, viaFD bool) (Outcome, any) {
	if viaFD {
		fd, err := r.GetFieldData(tag)
		if err != nil {
			return Outcome{Err: "gfd:" + ErrClass(err)}, nil
		}
		v, err := a.FD(fd)
		return Outcome{Val: wirex.Digest(v), Err: ErrClass(err)}, v
	}
	v, err := a.Call(r, tag)
	return Outcome{Val: wirex.Digest(v), Err: ErrClass(err)}, v
}

// RangeOutcome renders what Range shows: per tag nil/non-nil and the raw bytes of present fields.
func RangeOutcome(r *lazyproto.DecodeResult) string {
	var sb strings.Builder
	r.Range(func(tag int, fd *lazyproto.FieldData) bool {
		if fd == nil {
			fmt.Fprintf(&sb, "%d:nil;", tag)
			return true
		}
		bs, err := fd.BytesValues()
		fmt.Fprintf(&sb, "%d:%s/%s;", tag, wirex.Digest(bs), ErrClass(err))
		return true
	})
	return sb.String()
}

// Compatible lists, per tag of the universe, the accessors that fit the tag's canonical wire type
// (so that most drawn observations return values rather than mismatch errors).
func Compatible(tag int) []int {
	if tag < 0 {
		tag = -tag
	}
	var names []string
	switch tag {
	case 1, 7, 200:
		names = []string{"BoolValue", "BoolValues", "Int32Value", "Int32Values", "Int64Value", "Int64Values", "SInt32Value", "SInt32Values", "SInt64Value", "SInt64Values", "UInt32Value", "UInt32Values", "UInt64Value", "UInt64Values"}
	case 2, 3:
		names = []string{"StringValue", "StringValues", "BytesValue", "BytesValues"}
	case 4:
		names = []string{"Fixed32Value", "Fixed32Values", "Float32Value", "Float32Values"}
	case 5:
		names = []string{"Fixed64Value", "Fixed64Values", "Float64Value", "Float64Values"}
	case 6:
		names = []string{"BoolValues", "Int32Values", "Int64Values", "SInt32Values", "SInt64Values", "UInt32Values", "UInt64Values", "BytesValue", "BytesValues"}
	default:
		return nil
	}
	var out []int
	for _, n := range names {
		for i, a := range Accessors {
			if a.Name == n {
				out = append(out, i)
			}
		}
	}
	return out
}
