// Command regen rebuilds every example *.pb.fm.go with the protoc-gen-fastmarshal binary built from
// the working tree, without protoc: the FileDescriptorProtos embedded in the checked-in *.pb.go files
// (output of protoc-gen-go / protoc-gen-gogo, i.e. fixtures) are turned into CodeGeneratorRequests
// with the parameter strings of the repository's Makefile and piped to the plug-in.
package main

import (
	"bytes"
	"compress/gzip"
	"flag"
	"fmt"
	"io"
	"os"
	"os/exec"
	"path/filepath"
	"strings"

	gogoproto "github.com/gogo/protobuf/proto"
	_ "github.com/gogo/protobuf/types"
	"google.golang.org/protobuf/proto"
	"google.golang.org/protobuf/reflect/protodesc"
	"google.golang.org/protobuf/reflect/protoreflect"
	"google.golang.org/protobuf/types/descriptorpb"
	"google.golang.org/protobuf/types/pluginpb"

	_ "github.com/CrowdStrike/csproto/example/permessage/gogo"
	pmv1 "github.com/CrowdStrike/csproto/example/permessage/googlev1"
	pmv2 "github.com/CrowdStrike/csproto/example/permessage/googlev2"
	_ "github.com/CrowdStrike/csproto/example/proto2/gogo"
	p2v1 "github.com/CrowdStrike/csproto/example/proto2/googlev1"
	p2v2 "github.com/CrowdStrike/csproto/example/proto2/googlev2"
	_ "github.com/CrowdStrike/csproto/example/proto3/gogo"
	p3v1 "github.com/CrowdStrike/csproto/example/proto3/googlev1"
	p3v2 "github.com/CrowdStrike/csproto/example/proto3/googlev2"
)

const gogoWKT = ",Mgoogle/protobuf/any.proto=github.com/gogo/protobuf/types;types,Mgoogle/protobuf/duration.proto=github.com/gogo/protobuf/types;types,Mgoogle/protobuf/struct.proto=github.com/gogo/protobuf/types;types,Mgoogle/protobuf/timestamp.proto=github.com/gogo/protobuf/types;types,Mgoogle/protobuf/wrappers.proto=github.com/gogo/protobuf/types;types"

type target struct {
	name   string // request name
	dir    string // relative to the example module
	gogo   string // registered file name (gogo) or ""
	fd     protoreflect.FileDescriptor
	params string
}

var targets = []target{
	{name: "proto2-gogo", dir: "proto2/gogo", gogo: "gogo_proto2_example.proto", params: "paths=source_relative" + gogoWKT + ",specialname=Size"},
	{name: "proto3-gogo", dir: "proto3/gogo", gogo: "gogo_proto3_example.proto", params: "paths=source_relative" + gogoWKT},
	{name: "proto2-googlev1", dir: "proto2/googlev1", fd: p2v1.File_googlev1_proto2_example_proto, params: "apiversion=v2,paths=source_relative"},
	{name: "proto3-googlev1", dir: "proto3/googlev1", fd: p3v1.File_googlev1_proto3_example_proto, params: "apiversion=v2,paths=source_relative"},
	{name: "proto2-googlev2", dir: "proto2/googlev2", fd: p2v2.File_googlev2_proto2_example_proto, params: "apiversion=v2,paths=source_relative"},
	{name: "proto3-googlev2", dir: "proto3/googlev2", fd: p3v2.File_googlev2_proto3_example_proto, params: "apiversion=v2,paths=source_relative"},
	{name: "permessage-gogo", dir: "permessage/gogo", gogo: "gogo_permessage_example.proto", params: "filepermessage=true,paths=source_relative" + gogoWKT + ",specialname=Size"},
	{name: "permessage-googlev1", dir: "permessage/googlev1", fd: pmv1.File_googlev1_permessage_example_proto, params: "apiversion=v2,filepermessage=true,paths=source_relative"},
	{name: "permessage-googlev2", dir: "permessage/googlev2", fd: pmv2.File_googlev2_permessage_example_proto, params: "apiversion=v2,filepermessage=true,paths=source_relative"},
}

func gogoFile(name string) (*descriptorpb.FileDescriptorProto, error) {
	gz := gogoproto.FileDescriptor(name)
	if gz == nil {
		return nil, fmt.Errorf("gogo registry has no file %q", name)
	}
	zr, err := gzip.NewReader(bytes.NewReader(gz))
	if err != nil {
		return nil, err
	}
	raw, err := io.ReadAll(zr)
	if err != nil {
		return nil, err
	}
	fdp := &descriptorpb.FileDescriptorProto{}
	if err := proto.Unmarshal(raw, fdp); err != nil {
		return nil, err
	}
	return fdp, nil
}

func gogoClosure(name string, seen map[string]bool, out *[]*descriptorpb.FileDescriptorProto) error {
	if seen[name] {
		return nil
	}
	seen[name] = true
	fdp, err := gogoFile(name)
	if err != nil {
		return err
	}
	for _, d := range fdp.Dependency {
		if err := gogoClosure(d, seen, out); err != nil {
			return err
		}
	}
	*out = append(*out, fdp)
	return nil
}

func googleClosure(fd protoreflect.FileDescriptor, seen map[string]bool, out *[]*descriptorpb.FileDescriptorProto) {
	if seen[fd.Path()] {
		return
	}
	seen[fd.Path()] = true
	imps := fd.Imports()
	for i := 0; i < imps.Len(); i++ {
		googleClosure(imps.Get(i).FileDescriptor, seen, out)
	}
	*out = append(*out, protodesc.ToFileDescriptorProto(fd))
}

// Request builds the CodeGeneratorRequest for a target with the given parameter string.
func request(t target, params string) (*pluginpb.CodeGeneratorRequest, error) {
	var files []*descriptorpb.FileDescriptorProto
	var main string
	if t.gogo != "" {
		if err := gogoClosure(t.gogo, map[string]bool{}, &files); err != nil {
			return nil, err
		}
		main = t.gogo
	} else {
		googleClosure(t.fd, map[string]bool{}, &files)
		main = t.fd.Path()
	}
	return &pluginpb.CodeGeneratorRequest{
		FileToGenerate:  []string{main},
		Parameter:       proto.String(params),
		ProtoFile:       files,
		CompilerVersion: &pluginpb.Version{Major: proto.Int32(3), Minor: proto.Int32(21), Patch: proto.Int32(12)},
	}, nil
}

func main() {
	plugin := flag.String("plugin", "", "path to protoc-gen-fastmarshal built from the working tree")
	example := flag.String("example", "", "path to the example module (scratch copy)")
	reqdir := flag.String("reqdir", "", "directory to write the request files to (optional)")
	extra := flag.String("extra", "", "extra plug-in parameters appended to every request, e.g. enableunsafedecode=true")
	noWrite := flag.Bool("requests-only", false, "only write the request files")
	flag.Parse()
	if *reqdir != "" {
		if err := os.MkdirAll(*reqdir, 0o755); err != nil {
			fatal(err)
		}
	}
	if *reqdir != "" {
		// requests that name several files to generate in one plug-in invocation
		for _, mt := range []struct {
			name   string
			parts  []int
			params string
		}{
			{"multi-googlev2", []int{4, 5}, "apiversion=v2,paths=source_relative"},
			{"multi-googlev2-permessage", []int{5, 8}, "apiversion=v2,filepermessage=true,paths=source_relative"},
			{"multi-gogo", []int{0, 1}, "paths=source_relative" + gogoWKT + ",specialname=Size"},
		} {
			merged := &pluginpb.CodeGeneratorRequest{Parameter: proto.String(mt.params), CompilerVersion: &pluginpb.Version{Major: proto.Int32(3), Minor: proto.Int32(21), Patch: proto.Int32(12)}}
			seen := map[string]bool{}
			var dirs []string
			for _, i := range mt.parts {
				r, err := request(targets[i], mt.params)
				if err != nil {
					fatal(err)
				}
				merged.FileToGenerate = append(merged.FileToGenerate, r.FileToGenerate...)
				for _, f := range r.ProtoFile {
					if !seen[f.GetName()] {
						seen[f.GetName()] = true
						merged.ProtoFile = append(merged.ProtoFile, f)
					}
				}
				dirs = append(dirs, r.FileToGenerate[0]+"="+targets[i].dir)
			}
			raw, err := proto.MarshalOptions{Deterministic: true}.Marshal(merged)
			if err != nil {
				fatal(err)
			}
			_ = os.WriteFile(filepath.Join(*reqdir, mt.name+".req"), raw, 0o644)
			_ = os.WriteFile(filepath.Join(*reqdir, mt.name+".dir"), []byte(strings.Join(dirs, "\n")), 0o644)
		}
	}
	if *reqdir != "" {
		if err := syntheticRequests(*reqdir); err != nil {
			fatal(err)
		}
	}
	total := 0
	for _, t := range targets {
		params := t.params
		if *extra != "" {
			params += "," + *extra
		}
		req, err := request(t, params)
		if err != nil {
			fatal(fmt.Errorf("%s: %w", t.name, err))
		}
		raw, err := proto.MarshalOptions{Deterministic: true}.Marshal(req)
		if err != nil {
			fatal(err)
		}
		if *reqdir != "" {
			if err := os.WriteFile(filepath.Join(*reqdir, t.name+".req"), raw, 0o644); err != nil {
				fatal(err)
			}
			_ = os.WriteFile(filepath.Join(*reqdir, t.name+".dir"), []byte(req.FileToGenerate[0]+"="+t.dir), 0o644)
		}
		if *noWrite {
			continue
		}
		cmd := exec.Command(*plugin)
		cmd.Stdin = bytes.NewReader(raw)
		var stdout, stderr bytes.Buffer
		cmd.Stdout, cmd.Stderr = &stdout, &stderr
		if err := cmd.Run(); err != nil {
			fatal(fmt.Errorf("%s: plug-in failed: %v\n%s", t.name, err, stderr.String()))
		}
		resp := &pluginpb.CodeGeneratorResponse{}
		if err := proto.Unmarshal(stdout.Bytes(), resp); err != nil {
			fatal(fmt.Errorf("%s: cannot parse plug-in response: %v", t.name, err))
		}
		if resp.Error != nil {
			fatal(fmt.Errorf("%s: plug-in reported: %s", t.name, resp.GetError()))
		}
		for _, f := range resp.File {
			dst := filepath.Join(*example, t.dir, filepath.Base(f.GetName()))
			if err := os.WriteFile(dst, []byte(f.GetContent()), 0o644); err != nil {
				fatal(err)
			}
			total++
		}
	}
	fmt.Printf("regen: %d targets, %d files written\n", len(targets), total)
}

func fatal(err error) {
	fmt.Fprintln(os.Stderr, "regen:", err)
	os.Exit(2)
}

// syntheticRequests writes requests for a small hand-built schema pair that the example schemas lack: a
// file that imports a message from another Go package whose package name differs from the tail of its
// import path, where only the importing file is in file_to_generate. For the compile by-product check a
// second request (<name>.goreq) lets protoc-gen-go emit the message types of both files.
func syntheticRequests(reqdir string) error {
	str := func(s string) *string { return &s }
	i32 := func(i int32) *int32 { return &i }
	lbl := func(l descriptorpb.FieldDescriptorProto_Label) *descriptorpb.FieldDescriptorProto_Label { return &l }
	typ := func(t descriptorpb.FieldDescriptorProto_Type) *descriptorpb.FieldDescriptorProto_Type { return &t }
	opt, rep := descriptorpb.FieldDescriptorProto_LABEL_OPTIONAL, descriptorpb.FieldDescriptorProto_LABEL_REPEATED
	common := &descriptorpb.FileDescriptorProto{
		Name: str("common/v1/common.proto"), Package: str("verif.common.v1"), Syntax: str("proto3"),
		Options: &descriptorpb.FileOptions{GoPackage: str("example.com/verif/common/v1;commonv1")},
		MessageType: []*descriptorpb.DescriptorProto{{
			Name: str("Shared"),
			Field: []*descriptorpb.FieldDescriptorProto{
				{Name: str("id"), JsonName: str("id"), Number: i32(1), Label: lbl(opt), Type: typ(descriptorpb.FieldDescriptorProto_TYPE_STRING)},
				{Name: str("weight"), JsonName: str("weight"), Number: i32(2), Label: lbl(opt), Type: typ(descriptorpb.FieldDescriptorProto_TYPE_DOUBLE)},
			},
		}},
		EnumType: []*descriptorpb.EnumDescriptorProto{{
			Name:  str("Level"),
			Value: []*descriptorpb.EnumValueDescriptorProto{{Name: str("LEVEL_UNSPECIFIED"), Number: i32(0)}, {Name: str("LEVEL_HIGH"), Number: i32(1)}},
		}},
	}
	app := &descriptorpb.FileDescriptorProto{
		Name: str("app/app.proto"), Package: str("verif.app"), Syntax: str("proto3"), Dependency: []string{"common/v1/common.proto"},
		Options: &descriptorpb.FileOptions{GoPackage: str("example.com/verif/app;app")},
		MessageType: []*descriptorpb.DescriptorProto{{
			Name: str("Order"),
			Field: []*descriptorpb.FieldDescriptorProto{
				{Name: str("name"), JsonName: str("name"), Number: i32(1), Label: lbl(opt), Type: typ(descriptorpb.FieldDescriptorProto_TYPE_STRING)},
				{Name: str("owner"), JsonName: str("owner"), Number: i32(2), Label: lbl(opt), Type: typ(descriptorpb.FieldDescriptorProto_TYPE_MESSAGE), TypeName: str(".verif.common.v1.Shared")},
				{Name: str("watchers"), JsonName: str("watchers"), Number: i32(3), Label: lbl(rep), Type: typ(descriptorpb.FieldDescriptorProto_TYPE_MESSAGE), TypeName: str(".verif.common.v1.Shared")},
				{Name: str("level"), JsonName: str("level"), Number: i32(4), Label: lbl(opt), Type: typ(descriptorpb.FieldDescriptorProto_TYPE_ENUM), TypeName: str(".verif.common.v1.Level")},
				{Name: str("primary"), JsonName: str("primary"), Number: i32(5), Label: lbl(opt), Type: typ(descriptorpb.FieldDescriptorProto_TYPE_MESSAGE), TypeName: str(".verif.common.v1.Shared"), OneofIndex: i32(0)},
				{Name: str("note"), JsonName: str("note"), Number: i32(6), Label: lbl(opt), Type: typ(descriptorpb.FieldDescriptorProto_TYPE_STRING), OneofIndex: i32(0)},
			},
			OneofDecl: []*descriptorpb.OneofDescriptorProto{{Name: str("contact")}},
		}, {
			// the other package is referenced by nothing but the VALUE type of a map: an enum ...
			Name: str("Ledger"),
			Field: []*descriptorpb.FieldDescriptorProto{
				{Name: str("levels"), JsonName: str("levels"), Number: i32(1), Label: lbl(rep), Type: typ(descriptorpb.FieldDescriptorProto_TYPE_MESSAGE), TypeName: str(".verif.app.Ledger.LevelsEntry")},
				{Name: str("entries"), JsonName: str("entries"), Number: i32(2), Label: lbl(opt), Type: typ(descriptorpb.FieldDescriptorProto_TYPE_INT32)},
			},
			NestedType: []*descriptorpb.DescriptorProto{{
				Name: str("LevelsEntry"), Options: &descriptorpb.MessageOptions{MapEntry: proto.Bool(true)},
				Field: []*descriptorpb.FieldDescriptorProto{
					{Name: str("key"), JsonName: str("key"), Number: i32(1), Label: lbl(opt), Type: typ(descriptorpb.FieldDescriptorProto_TYPE_STRING)},
					{Name: str("value"), JsonName: str("value"), Number: i32(2), Label: lbl(opt), Type: typ(descriptorpb.FieldDescriptorProto_TYPE_ENUM), TypeName: str(".verif.common.v1.Level")},
				},
			}},
		}, {
			// a map field declared BEFORE a nested message (protoc lists nested types in source order, so the synthetic
			// map-entry type precedes the real nested message)
			Name: str("Outer"),
			Field: []*descriptorpb.FieldDescriptorProto{
				{Name: str("attrs"), JsonName: str("attrs"), Number: i32(1), Label: lbl(rep), Type: typ(descriptorpb.FieldDescriptorProto_TYPE_MESSAGE), TypeName: str(".verif.app.Outer.AttrsEntry")},
				{Name: str("inner"), JsonName: str("inner"), Number: i32(2), Label: lbl(opt), Type: typ(descriptorpb.FieldDescriptorProto_TYPE_MESSAGE), TypeName: str(".verif.app.Outer.Inner")},
			},
			NestedType: []*descriptorpb.DescriptorProto{{
				Name: str("AttrsEntry"), Options: &descriptorpb.MessageOptions{MapEntry: proto.Bool(true)},
				Field: []*descriptorpb.FieldDescriptorProto{
					{Name: str("key"), JsonName: str("key"), Number: i32(1), Label: lbl(opt), Type: typ(descriptorpb.FieldDescriptorProto_TYPE_STRING)},
					{Name: str("value"), JsonName: str("value"), Number: i32(2), Label: lbl(opt), Type: typ(descriptorpb.FieldDescriptorProto_TYPE_STRING)},
				},
			}, {
				Name: str("Inner"),
				Field: []*descriptorpb.FieldDescriptorProto{
					{Name: str("x"), JsonName: str("x"), Number: i32(1), Label: lbl(opt), Type: typ(descriptorpb.FieldDescriptorProto_TYPE_STRING)},
				},
			}},
		}, {
			// ... of a repeated (packed) enum field ...
			Name: str("Audit"),
			Field: []*descriptorpb.FieldDescriptorProto{
				{Name: str("history"), JsonName: str("history"), Number: i32(1), Label: lbl(rep), Type: typ(descriptorpb.FieldDescriptorProto_TYPE_ENUM), TypeName: str(".verif.common.v1.Level")},
			},
		}, {
			// ... and a message, here one level further down
			Name: str("Routes"),
			Field: []*descriptorpb.FieldDescriptorProto{
				{Name: str("hops"), JsonName: str("hops"), Number: i32(1), Label: lbl(rep), Type: typ(descriptorpb.FieldDescriptorProto_TYPE_MESSAGE), TypeName: str(".verif.app.Routes.Hop")},
			},
			NestedType: []*descriptorpb.DescriptorProto{{
				Name: str("Hop"),
				Field: []*descriptorpb.FieldDescriptorProto{
					{Name: str("by_id"), JsonName: str("byId"), Number: i32(1), Label: lbl(rep), Type: typ(descriptorpb.FieldDescriptorProto_TYPE_MESSAGE), TypeName: str(".verif.app.Routes.Hop.ByIdEntry")},
				},
				NestedType: []*descriptorpb.DescriptorProto{{
					Name: str("ByIdEntry"), Options: &descriptorpb.MessageOptions{MapEntry: proto.Bool(true)},
					Field: []*descriptorpb.FieldDescriptorProto{
						{Name: str("key"), JsonName: str("key"), Number: i32(1), Label: lbl(opt), Type: typ(descriptorpb.FieldDescriptorProto_TYPE_INT32)},
						{Name: str("value"), JsonName: str("value"), Number: i32(2), Label: lbl(opt), Type: typ(descriptorpb.FieldDescriptorProto_TYPE_MESSAGE), TypeName: str(".verif.common.v1.Shared")},
					},
				}},
			}},
		}},
	}
	ver := &pluginpb.Version{Major: proto.Int32(3), Minor: proto.Int32(21), Patch: proto.Int32(12)}
	fm := &pluginpb.CodeGeneratorRequest{FileToGenerate: []string{"app/app.proto"}, Parameter: str("apiversion=v2,paths=source_relative"), ProtoFile: []*descriptorpb.FileDescriptorProto{common, app}, CompilerVersion: ver}
	gen := &pluginpb.CodeGeneratorRequest{FileToGenerate: []string{"common/v1/common.proto", "app/app.proto"}, Parameter: str("paths=source_relative"), ProtoFile: []*descriptorpb.FileDescriptorProto{common, app}, CompilerVersion: ver}
	for name, r := range map[string]*pluginpb.CodeGeneratorRequest{"synthetic-imports.req": fm, "synthetic-imports.goreq": gen} {
		raw, err := proto.MarshalOptions{Deterministic: true}.Marshal(r)
		if err != nil {
			return err
		}
		if err := os.WriteFile(filepath.Join(reqdir, name), raw, 0o644); err != nil {
			return err
		}
	}
	if err := os.WriteFile(filepath.Join(reqdir, "synthetic-imports.dir"), []byte("app/app.proto=app"), 0o644); err != nil {
		return err
	}
	// a proto2 file in which every message with required fields is nested in a parent without fields of its own
	req2 := descriptorpb.FieldDescriptorProto_LABEL_REQUIRED
	events := &descriptorpb.FileDescriptorProto{
		Name: str("events/events.proto"), Package: str("verif.events"), Syntax: str("proto2"),
		Options: &descriptorpb.FileOptions{GoPackage: str("example.com/verif/events;events")},
		MessageType: []*descriptorpb.DescriptorProto{{
			Name: str("Events"),
			NestedType: []*descriptorpb.DescriptorProto{{
				Name: str("Login"),
				Field: []*descriptorpb.FieldDescriptorProto{
					{Name: str("user"), JsonName: str("user"), Number: i32(1), Label: lbl(req2), Type: typ(descriptorpb.FieldDescriptorProto_TYPE_STRING)},
					{Name: str("attempts"), JsonName: str("attempts"), Number: i32(2), Label: lbl(opt), Type: typ(descriptorpb.FieldDescriptorProto_TYPE_INT32)},
				},
				NestedType: []*descriptorpb.DescriptorProto{{
					Name: str("Origin"),
					Field: []*descriptorpb.FieldDescriptorProto{
						{Name: str("host"), JsonName: str("host"), Number: i32(1), Label: lbl(req2), Type: typ(descriptorpb.FieldDescriptorProto_TYPE_BYTES)},
					},
				}},
			}, {Name: str("Nothing")}},
		}, {
			Name: str("Holder"),
			Field: []*descriptorpb.FieldDescriptorProto{
				{Name: str("login"), JsonName: str("login"), Number: i32(1), Label: lbl(opt), Type: typ(descriptorpb.FieldDescriptorProto_TYPE_MESSAGE), TypeName: str(".verif.events.Events.Login")},
				{Name: str("logins"), JsonName: str("logins"), Number: i32(2), Label: lbl(rep), Type: typ(descriptorpb.FieldDescriptorProto_TYPE_MESSAGE), TypeName: str(".verif.events.Events.Login")},
				{Name: str("origin"), JsonName: str("origin"), Number: i32(3), Label: lbl(opt), Type: typ(descriptorpb.FieldDescriptorProto_TYPE_MESSAGE), TypeName: str(".verif.events.Events.Login.Origin")},
			},
		}},
	}
	fm2 := &pluginpb.CodeGeneratorRequest{FileToGenerate: []string{"events/events.proto"}, Parameter: str("apiversion=v2,paths=source_relative"), ProtoFile: []*descriptorpb.FileDescriptorProto{events}, CompilerVersion: ver}
	gen2 := &pluginpb.CodeGeneratorRequest{FileToGenerate: []string{"events/events.proto"}, Parameter: str("paths=source_relative"), ProtoFile: []*descriptorpb.FileDescriptorProto{events}, CompilerVersion: ver}
	for name, r := range map[string]*pluginpb.CodeGeneratorRequest{"synthetic-nestedrequired.req": fm2, "synthetic-nestedrequired.goreq": gen2} {
		raw, err := proto.MarshalOptions{Deterministic: true}.Marshal(r)
		if err != nil {
			return err
		}
		if err := os.WriteFile(filepath.Join(reqdir, name), raw, 0o644); err != nil {
			return err
		}
	}
	return os.WriteFile(filepath.Join(reqdir, "synthetic-nestedrequired.dir"), []byte("events/events.proto=events"), 0o644)
}
