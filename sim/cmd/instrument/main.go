// Command instrument rewrites a scratch copy of the csproto tree so that the simulator owns the
// sources of nondeterminism the properties depend on. It never touches /repo itself: the driver
// copies /repo's working tree to a scratch directory first and runs this tool on the copy.
//
//	instrument pool  <dir>        every mention of the type sync.Pool in package <dir> becomes verifPool
//	instrument smap  <dir>        every mention of the type sync.Map in package <dir> becomes verifSyncMap,
//	                              and verif_reset_gen.go is written with a reset function for package-level maps
//	instrument atomics <file>...  a csproto.VerifYieldPoint("gen.atomic") statement is inserted before every
//	                              statement that calls a sync/atomic function
//
// All rewrites are behaviour preserving: the substituted types have the same method surface and
// (with no hook installed) the same behaviour; a yield is a scheduling point only.
package main

import (
	"bytes"
	"fmt"
	"go/ast"
	"go/format"
	"go/parser"
	"go/token"
	"os"
	"path/filepath"
	"sort"
	"strings"
)

func main() {
	if len(os.Args) < 3 {
		fmt.Fprintln(os.Stderr, "usage: instrument pool|smap <dir> | atomics <file>...")
		os.Exit(2)
	}
	var err error
	switch os.Args[1] {
	case "pool":
		err = swapType(os.Args[2], "sync", "Pool", "verifPool", false)
	case "smap":
		err = swapType(os.Args[2], "sync", "Map", "verifSyncMap", true)
	case "funcentry":
		// instrument funcentry <dir> <yieldfunc> : every function of every file in <dir> that mentions a
		// swapped sync.Map variable gets a scheduling point as its first statement
		err = yieldAtFuncEntry(os.Args[2], os.Args[3])
	case "atomicsfn":
		// instrument atomicsfn <local yield function> <label> <file>... : like atomics, but the inserted call is to a
		// function of the file's own package (used for the scratch copy of the protobuf-go runtime)
		for _, f := range os.Args[4:] {
			if e := yieldBeforeAtomicsWith(f, os.Args[2], os.Args[3]); e != nil {
				err = e
				break
			}
		}
	case "methyield":
		// instrument methyield <dir> <local yield function> : in every non-test file of <dir> (except the injected
		// verif_* files) a scheduling point is inserted before each statement that calls a sync/atomic function or a
		// method named like the operations of the typed atomics (Load, Store, Swap, CompareAndSwap, Add, And, Or).
		// The match is by name, not by type: a scheduling point too many is harmless, one too few hides a window.
		err = yieldBeforeAtomicMethods(os.Args[2], os.Args[3])
	case "atomics":
		for _, f := range os.Args[3-1:] {
			if e := yieldBeforeAtomics(f); e != nil {
				err = e
				break
			}
		}
	default:
		err = fmt.Errorf("unknown mode %q", os.Args[1])
	}
	if err != nil {
		fmt.Fprintln(os.Stderr, "instrument:", err)
		os.Exit(2)
	}
}

func goFiles(dir string) ([]string, error) {
	ents, err := os.ReadDir(dir)
	if err != nil {
		return nil, err
	}
	var out []string
	for _, e := range ents {
		n := e.Name()
		if e.IsDir() || !strings.HasSuffix(n, ".go") || strings.HasSuffix(n, "_test.go") || strings.HasPrefix(n, "verif_") {
			continue
		}
		out = append(out, filepath.Join(dir, n))
	}
	sort.Strings(out)
	return out, nil
}

// importName returns the local name under which path is imported in f ("" if not imported).
func importName(f *ast.File, path string) string {
	for _, im := range f.Imports {
		if strings.Trim(im.Path.Value, `"`) == path {
			if im.Name != nil {
				return im.Name.Name
			}
			return path[strings.LastIndex(path, "/")+1:]
		}
	}
	return ""
}

// swapType replaces the selector <pkg>.<typ> by the identifier <repl> in every non-test file of dir.
func swapType(dir, pkgPath, typ, repl string, genReset bool) error {
	files, err := goFiles(dir)
	if err != nil {
		return err
	}
	var pkgName string
	var resetVars []string
	swapped := 0
	for _, path := range files {
		fset := token.NewFileSet()
		f, err := parser.ParseFile(fset, path, nil, parser.ParseComments)
		if err != nil {
			return err
		}
		pkgName = f.Name.Name
		local := importName(f, pkgPath)
		if local == "" {
			continue
		}
		isSel := func(e ast.Expr) bool {
			s, ok := e.(*ast.SelectorExpr)
			if !ok {
				return false
			}
			x, ok := s.X.(*ast.Ident)
			return ok && x.Name == local && x.Obj == nil && s.Sel.Name == typ
		}
		n := 0
		// package-level vars of the swapped type (for the reset function)
		for _, d := range f.Decls {
			gd, ok := d.(*ast.GenDecl)
			if !ok || gd.Tok != token.VAR {
				continue
			}
			for _, sp := range gd.Specs {
				vs := sp.(*ast.ValueSpec)
				if vs.Type != nil && isSel(vs.Type) {
					for _, nm := range vs.Names {
						resetVars = append(resetVars, nm.Name)
					}
				}
			}
		}
		rewrite(f, func(e ast.Expr) ast.Expr {
			if isSel(e) {
				n++
				return &ast.Ident{Name: repl, NamePos: e.Pos()}
			}
			return e
		})
		if n == 0 {
			continue
		}
		swapped += n
		// does the file still use the package?
		still := false
		ast.Inspect(f, func(nd ast.Node) bool {
			if s, ok := nd.(*ast.SelectorExpr); ok {
				if x, ok := s.X.(*ast.Ident); ok && x.Name == local && x.Obj == nil {
					still = true
				}
			}
			return true
		})
		var buf bytes.Buffer
		if err := format.Node(&buf, fset, f); err != nil {
			return err
		}
		if !still {
			fmt.Fprintf(&buf, "\nvar _ %s.Locker // keep import (added by verif instrumenter)\n", local)
		}
		if err := os.WriteFile(path, buf.Bytes(), 0o644); err != nil {
			return err
		}
	}
	fmt.Printf("instrument: %s: %d mentions of %s.%s -> %s\n", dir, swapped, pkgPath, typ, repl)
	if genReset {
		var b strings.Builder
		fmt.Fprintf(&b, "package %s\n\n// Code generated by verif instrumenter. DO NOT EDIT.\n\n", pkgName)
		fmt.Fprintf(&b, "// VerifResetTypeCaches empties every package-level map the instrumenter found, so that\n// \"first use of a type\" can happen more than once per process.\nfunc VerifResetTypeCaches() int {\n\tn := 0\n")
		for _, v := range resetVars {
			fmt.Fprintf(&b, "\t%s.m.Range(func(k, _ any) bool { %s.m.Delete(k); n++; return true })\n", v, v)
		}
		fmt.Fprintf(&b, "\treturn n\n}\n\n// VerifTypeCacheVars is the number of package-level caches found.\nconst VerifTypeCacheVars = %d\n", len(resetVars))
		if err := os.WriteFile(filepath.Join(dir, "verif_reset_gen.go"), []byte(b.String()), 0o644); err != nil {
			return err
		}
	}
	return nil
}

// rewrite applies fn to every expression slot that can hold a type expression.
func rewrite(f *ast.File, fn func(ast.Expr) ast.Expr) {
	ast.Inspect(f, func(n ast.Node) bool {
		switch x := n.(type) {
		case *ast.Field:
			x.Type = fn(x.Type)
		case *ast.ValueSpec:
			if x.Type != nil {
				x.Type = fn(x.Type)
			}
			for i := range x.Values {
				x.Values[i] = fn(x.Values[i])
			}
		case *ast.TypeSpec:
			x.Type = fn(x.Type)
		case *ast.StarExpr:
			x.X = fn(x.X)
		case *ast.ArrayType:
			x.Elt = fn(x.Elt)
		case *ast.MapType:
			x.Key = fn(x.Key)
			x.Value = fn(x.Value)
		case *ast.ChanType:
			x.Value = fn(x.Value)
		case *ast.CompositeLit:
			if x.Type != nil {
				x.Type = fn(x.Type)
			}
		case *ast.CallExpr:
			// new(T), make(T, ..), T(x) conversions, generic-free calls
			for i := range x.Args {
				x.Args[i] = fn(x.Args[i])
			}
			x.Fun = fn(x.Fun)
		case *ast.TypeAssertExpr:
			if x.Type != nil {
				x.Type = fn(x.Type)
			}
		case *ast.UnaryExpr:
			x.X = fn(x.X)
		case *ast.IndexExpr:
			x.Index = fn(x.Index)
		case *ast.IndexListExpr:
			for i := range x.Indices {
				x.Indices[i] = fn(x.Indices[i])
			}
		case *ast.Ellipsis:
			if x.Elt != nil {
				x.Elt = fn(x.Elt)
			}
		case *ast.CaseClause:
			for i := range x.List {
				x.List[i] = fn(x.List[i])
			}
		}
		return true
	})
}

// yieldAtFuncEntry inserts <yieldFn>("fn.<name>") at the top of every function declared in a file that
// mentions the type verifSyncMap's variables (found by looking for the identifier of any package-level
// variable of that type).
func yieldAtFuncEntry(dir, yieldFn string) error {
	files, err := goFiles(dir)
	if err != nil {
		return err
	}
	// pass 1: names of package-level variables of type verifSyncMap
	names := map[string]bool{}
	parsed := map[string]*ast.File{}
	fsets := map[string]*token.FileSet{}
	for _, path := range files {
		fset := token.NewFileSet()
		f, err := parser.ParseFile(fset, path, nil, parser.ParseComments)
		if err != nil {
			return err
		}
		parsed[path], fsets[path] = f, fset
		for _, d := range f.Decls {
			gd, ok := d.(*ast.GenDecl)
			if !ok || gd.Tok != token.VAR {
				continue
			}
			for _, sp := range gd.Specs {
				vs := sp.(*ast.ValueSpec)
				if id, ok := vs.Type.(*ast.Ident); ok && id.Name == "verifSyncMap" {
					for _, nm := range vs.Names {
						names[nm.Name] = true
					}
				}
			}
		}
	}
	total := 0
	for _, path := range files {
		f := parsed[path]
		uses := false
		ast.Inspect(f, func(n ast.Node) bool {
			if id, ok := n.(*ast.Ident); ok && names[id.Name] {
				uses = true
			}
			return true
		})
		if !uses {
			continue
		}
		n := 0
		for _, d := range f.Decls {
			fd, ok := d.(*ast.FuncDecl)
			if !ok || fd.Body == nil {
				continue
			}
			call := &ast.ExprStmt{X: &ast.CallExpr{
				Fun:  &ast.Ident{Name: yieldFn, NamePos: fd.Body.Lbrace},
				Args: []ast.Expr{&ast.BasicLit{Kind: token.STRING, Value: fmt.Sprintf("%q", "fn."+fd.Name.Name)}},
			}}
			fd.Body.List = append([]ast.Stmt{call}, fd.Body.List...)
			n++
		}
		if n == 0 {
			continue
		}
		total += n
		f.Comments = nil
		var buf bytes.Buffer
		if err := format.Node(&buf, fsets[path], f); err != nil {
			return err
		}
		if err := os.WriteFile(path, buf.Bytes(), 0o644); err != nil {
			return err
		}
	}
	fmt.Printf("instrument: %s: scheduling point at the entry of %d functions\n", dir, total)
	return nil
}

func yieldBeforeAtomicMethods(dir, fn string) error {
	ents, err := os.ReadDir(dir)
	if err != nil {
		return err
	}
	names := map[string]bool{"Load": true, "Store": true, "Swap": true, "CompareAndSwap": true, "Add": true, "And": true, "Or": true}
	for _, e := range ents {
		n := e.Name()
		if e.IsDir() || !strings.HasSuffix(n, ".go") || strings.HasSuffix(n, "_test.go") || strings.HasPrefix(n, "verif_") {
			continue
		}
		path := filepath.Join(dir, n)
		fset := token.NewFileSet()
		f, err := parser.ParseFile(fset, path, nil, parser.ParseComments)
		if err != nil {
			return err
		}
		at := importName(f, "sync/atomic")
		isCall := func(nd ast.Node) bool {
			c, ok := nd.(*ast.CallExpr)
			if !ok {
				return false
			}
			sel, ok := c.Fun.(*ast.SelectorExpr)
			if !ok {
				return false
			}
			if x, ok := sel.X.(*ast.Ident); ok && at != "" && x.Name == at && x.Obj == nil {
				return true // atomic.LoadInt32(...), atomic.StoreUint32(...), ...
			}
			return names[sel.Sel.Name]
		}
		shallowHas := func(st ast.Stmt) bool {
			found := false
			ast.Inspect(st, func(nd ast.Node) bool {
				if nd == nil || found {
					return false
				}
				switch nd.(type) {
				case *ast.BlockStmt, *ast.FuncLit:
					return false
				}
				if isCall(nd) {
					found = true
					return false
				}
				return true
			})
			return found
		}
		count := 0
		fix := func(list []ast.Stmt) []ast.Stmt {
			var out []ast.Stmt
			for _, st := range list {
				if es, ok := st.(*ast.ExprStmt); ok {
					if c, ok := es.X.(*ast.CallExpr); ok {
						if id, ok := c.Fun.(*ast.Ident); ok && id.Name == fn {
							out = append(out, st) // already a scheduling point
							continue
						}
					}
				}
				if shallowHas(st) {
					count++
					out = append(out, &ast.ExprStmt{X: &ast.CallExpr{Fun: &ast.Ident{Name: fn, NamePos: st.Pos()},
						Args: []ast.Expr{&ast.BasicLit{Kind: token.STRING, Value: `"atomic"`}}}})
				}
				out = append(out, st)
			}
			return out
		}
		ast.Inspect(f, func(nd ast.Node) bool {
			switch x := nd.(type) {
			case *ast.BlockStmt:
				x.List = fix(x.List)
			case *ast.CaseClause:
				x.Body = fix(x.Body)
			case *ast.CommClause:
				x.Body = fix(x.Body)
			}
			return true
		})
		if count == 0 {
			continue
		}
		f.Comments = nil
		var buf bytes.Buffer
		if err := format.Node(&buf, fset, f); err != nil {
			return err
		}
		if err := os.WriteFile(path, buf.Bytes(), 0o644); err != nil {
			return err
		}
	}
	return nil
}

// yieldBeforeAtomics inserts csproto.VerifYieldPoint("gen.atomic") before statements calling sync/atomic.
func yieldBeforeAtomics(path string) error { return yieldBeforeAtomicsWith(path, "", "gen.atomic") }

// yieldBeforeAtomicsWith inserts <fn>(<label>) - or csproto.VerifYieldPoint(<label>) if fn is empty - before every
// statement that calls a sync/atomic function.
func yieldBeforeAtomicsWith(path, fn, label string) error {
	fset := token.NewFileSet()
	f, err := parser.ParseFile(fset, path, nil, parser.ParseComments)
	if err != nil {
		return err
	}
	at := importName(f, "sync/atomic")
	cs := importName(f, "github.com/CrowdStrike/csproto")
	if at == "" || (cs == "" && fn == "") {
		return nil
	}
	isAtomicCall := func(n ast.Node) bool {
		c, ok := n.(*ast.CallExpr)
		if !ok {
			return false
		}
		s, ok := c.Fun.(*ast.SelectorExpr)
		if !ok {
			return false
		}
		x, ok := s.X.(*ast.Ident)
		return ok && x.Name == at && x.Obj == nil
	}
	shallowHas := func(st ast.Stmt) bool {
		found := false
		var visit func(n ast.Node) bool
		visit = func(n ast.Node) bool {
			if n == nil || found {
				return false
			}
			if _, ok := n.(*ast.BlockStmt); ok {
				return false // nested bodies are handled at their own level
			}
			if _, ok := n.(*ast.FuncLit); ok {
				return false
			}
			if isAtomicCall(n) {
				found = true
				return false
			}
			return true
		}
		ast.Inspect(st, visit)
		return found
	}
	count := 0
	mk := func(pos token.Pos) ast.Stmt {
		count++
		var fun ast.Expr = &ast.SelectorExpr{X: &ast.Ident{Name: cs, NamePos: pos}, Sel: &ast.Ident{Name: "VerifYieldPoint"}}
		if fn != "" {
			fun = &ast.Ident{Name: fn, NamePos: pos}
		}
		return &ast.ExprStmt{X: &ast.CallExpr{
			Fun:  fun,
			Args: []ast.Expr{&ast.BasicLit{Kind: token.STRING, Value: fmt.Sprintf("%q", label)}},
		}}
	}
	fix := func(list []ast.Stmt) []ast.Stmt {
		var out []ast.Stmt
		for _, st := range list {
			if shallowHas(st) {
				out = append(out, mk(st.Pos()))
			}
			out = append(out, st)
		}
		return out
	}
	ast.Inspect(f, func(n ast.Node) bool {
		switch x := n.(type) {
		case *ast.BlockStmt:
			x.List = fix(x.List)
		case *ast.CaseClause:
			x.Body = fix(x.Body)
		case *ast.CommClause:
			x.Body = fix(x.Body)
		}
		return true
	})
	if count == 0 {
		return nil
	}
	// comments are dropped on purpose: free-floating comments would be misplaced by inserted nodes
	f.Comments = nil
	var buf bytes.Buffer
	if err := format.Node(&buf, fset, f); err != nil {
		return err
	}
	return os.WriteFile(path, buf.Bytes(), 0o644)
}
