// Package c16 checks the determinism clause of C16: identical CodeGeneratorRequests give byte-identical
// responses whatever the clock, working directory, environment, GOMAXPROCS or stdin framing is.
package c16

import (
	"bufio"
	"bytes"
	"encoding/json"
	"fmt"
	"go/parser"
	"go/token"
	"io"
	"os"
	"os/exec"
	"path/filepath"
	"sort"
	"strings"
	"testing"
	"time"

	"google.golang.org/protobuf/proto"
	"google.golang.org/protobuf/types/pluginpb"
	"pgregory.net/rapid"

	"verifsim/rep"
)

type genReq struct {
	Request    []byte            `json:"request"`
	ClockNs    int64             `json:"clock_ns"`
	Cwd        string            `json:"cwd"`
	Env        map[string]string `json:"env"`
	GoMaxProcs int               `json:"gomaxprocs"`
}

type genResp struct {
	Response []byte `json:"response"`
	Now      string `json:"now"`
	Panic    string `json:"panic"`
}

type server struct {
	cmd *exec.Cmd
	in  *os.File
	out *bufio.Reader
}

func startServer(t *testing.T) *server {
	bin := filepath.Join(os.Getenv("VERIF_BIN"), "fastmarshal.test")
	reqR, reqW, _ := os.Pipe()
	respR, respW, _ := os.Pipe()
	cmd := exec.Command(bin, "-test.run", "^TestVerifC16Server$", "-test.timeout", "0")
	cmd.Env = append(os.Environ(), "VERIF_C16_SERVER=1")
	cmd.ExtraFiles = []*os.File{reqR, respW}
	cmd.Stderr = os.Stderr
	if err := cmd.Start(); err != nil {
		t.Fatalf("HARNESS: cannot start helper %s: %v", bin, err)
	}
	reqR.Close()
	respW.Close()
	return &server{cmd: cmd, in: reqW, out: bufio.NewReaderSize(respR, 1<<20)}
}

func (s *server) do(r genReq) (genResp, error) {
	b, _ := json.Marshal(r)
	if _, err := s.in.Write(append(b, '\n')); err != nil {
		return genResp{}, err
	}
	line, err := s.out.ReadBytes('\n')
	if err != nil {
		return genResp{}, fmt.Errorf("helper died: %v", err)
	}
	var out genResp
	return out, json.Unmarshal(line, &out)
}

type target struct {
	name  string
	raw   []byte
	goreq []byte            // request for protoc-gen-go (synthetic schemas only: the message types do not exist yet)
	dirs  map[string]string // proto file name (without .proto) -> package directory in the example module
}

func loadTargets(t *testing.T) []target {
	dir := filepath.Join(os.Getenv("VERIF_WORKDIR"), "requests")
	ents, err := os.ReadDir(dir)
	if err != nil {
		t.Fatalf("HARNESS: no request files in %s: %v", dir, err)
	}
	var out []target
	for _, e := range ents {
		if strings.HasSuffix(e.Name(), ".req") {
			b, err := os.ReadFile(filepath.Join(dir, e.Name()))
			if err != nil {
				t.Fatalf("HARNESS: %v", err)
			}
			tg := target{name: strings.TrimSuffix(e.Name(), ".req"), raw: b, dirs: map[string]string{}}
			tg.goreq, _ = os.ReadFile(filepath.Join(dir, tg.name+".goreq"))
			db, _ := os.ReadFile(filepath.Join(dir, tg.name+".dir"))
			for _, ln := range strings.Split(string(db), "\n") {
				if k, v, ok := strings.Cut(ln, "="); ok {
					tg.dirs[strings.TrimSuffix(k, ".proto")] = v
				}
			}
			out = append(out, tg)
		}
	}
	sort.Slice(out, func(i, j int) bool { return out[i].name < out[j].name })
	if len(out) == 0 {
		t.Fatalf("HARNESS: no request files in %s", dir)
	}
	return out
}

// variant rewrites the request's parameter string.
func variant(t *rapid.T, raw []byte) ([]byte, string) {
	req := &pluginpb.CodeGeneratorRequest{}
	if err := proto.Unmarshal(raw, req); err != nil {
		panic(err)
	}
	p := req.GetParameter()
	if rapid.Bool().Draw(t, "unsafe") {
		p += ",enableunsafedecode=true"
	}
	switch rapid.IntRange(0, 3).Draw(t, "permsg") {
	case 0:
		if !strings.Contains(p, "filepermessage=true") {
			p += ",filepermessage=true"
		}
	case 1:
		p = strings.Replace(p, "filepermessage=true,", "", 1)
	}
	switch rapid.IntRange(0, 5).Draw(t, "special") {
	case 0:
		p += ",specialname=Name,specialname=Reset"
	case 1, 2:
		// a special name that matches no field: the flag may be repeated and must accumulate, so the output
		// (and whether it compiles) is the same as without it
		p += ",specialname=NoSuchFieldInAnyExampleSchema"
	}
	if rapid.IntRange(0, 3).Draw(t, "apicase") == 0 {
		// option values are matched case-insensitively, so this is the same request in another spelling
		p = strings.Replace(p, "apiversion=v2", "apiversion=V2", 1)
	}
	req.Parameter = proto.String(p)
	b, err := proto.MarshalOptions{Deterministic: true}.Marshal(req)
	if err != nil {
		panic(err)
	}
	return b, p
}

var envNames = []string{"USER", "HOME", "HOSTNAME", "PWD", "TZ", "LANG", "LC_ALL", "SOURCE_DATE_EPOCH", "BUILD_ID", "CI", "VERSION", "COMMIT", "DATE", "NOW", "GOFLAGS", "PROTOC_GEN_FASTMARSHAL_DEBUG", "TMPDIR"}

func drawEnv(t *rapid.T, tmp string) map[string]string {
	env := map[string]string{"PATH": "/usr/bin:/bin", "TMPDIR": tmp}
	for _, n := range envNames {
		if rapid.IntRange(0, 2).Draw(t, "envset") == 0 {
			env[n] = fmt.Sprintf("v%d", rapid.IntRange(0, 1<<20).Draw(t, "envval"))
		}
	}
	if _, ok := env["TZ"]; ok {
		env["TZ"] = []string{"UTC", "America/Los_Angeles", "Asia/Tokyo", "Europe/Berlin"}[rapid.IntRange(0, 3).Draw(t, "tz")]
	}
	return env
}

var clockOffsets = []time.Duration{0, 1, time.Second - 1, time.Second, 59 * time.Second, time.Minute, 23*time.Hour + 59*time.Minute + 59*time.Second, 24 * time.Hour,
	365 * 24 * time.Hour, 366 * 24 * time.Hour, 400 * 24 * time.Hour, 10 * 366 * 24 * time.Hour}

var (
	srv     *server
	targets []target
)

func runBinary(tt *testing.T, raw []byte, cwd string, env map[string]string, chunk int) ([]byte, int) {
	bin := filepath.Join(os.Getenv("VERIF_BIN"), "protoc-gen-fastmarshal")
	cmd := exec.Command(bin)
	cmd.Dir = cwd
	for k, v := range env {
		cmd.Env = append(cmd.Env, k+"="+v)
	}
	sort.Strings(cmd.Env)
	pr, pw, err := os.Pipe()
	if err != nil {
		tt.Fatalf("HARNESS: %v", err)
	}
	cmd.Stdin = pr
	var out bytes.Buffer
	cmd.Stdout = &out
	cmd.Stderr = io.Discard
	if err := cmd.Start(); err != nil {
		tt.Fatalf("HARNESS: %v", err)
	}
	pr.Close()
	for off := 0; off < len(raw); off += chunk {
		end := off + chunk
		if end > len(raw) {
			end = len(raw)
		}
		if _, err := pw.Write(raw[off:end]); err != nil {
			break
		}
	}
	pw.Close()
	err = cmd.Wait()
	code := 0
	if ee, ok := err.(*exec.ExitError); ok {
		code = ee.ExitCode()
	} else if err != nil {
		code = -1
	}
	return out.Bytes(), code
}

func runC16(t *rapid.T, w *rep.Worker, tt *testing.T) {
	tg := targets[rapid.IntRange(0, len(targets)-1).Draw(t, "target")]
	raw, params := variant(t, tg.raw)
	w.Begin(fmt.Sprintf("request=%s parameters=%q", tg.name, params))
	w.MixS(tg.name + "|" + params)
	base := tt.TempDir()
	nrep := rapid.IntRange(3, 6).Draw(t, "repetitions")
	var first []byte
	var firstDesc string
	spanMin, spanMax := time.Duration(1<<62), time.Duration(0)
	for i := 0; i < nrep; i++ {
		cwd := filepath.Join(base, fmt.Sprintf("cwd-%d-%d", i, rapid.IntRange(0, 999).Draw(t, "cwdname")))
		_ = os.MkdirAll(cwd, 0o755)
		env := drawEnv(t, base)
		clock := clockOffsets[rapid.IntRange(0, len(clockOffsets)-1).Draw(t, "clock")]
		gmp := []int{1, 2, 4, 16}[rapid.IntRange(0, 3).Draw(t, "gomaxprocs")]
		viaProcess := rapid.IntRange(0, 3).Draw(t, "process") == 0
		var got []byte
		desc := ""
		if viaProcess {
			chunk := []int{1 << 20, 4096, 100, 7}[rapid.IntRange(0, 3).Draw(t, "chunk")]
			env["GOMAXPROCS"] = fmt.Sprint(gmp)
			var code int
			got, code = runBinary(tt, raw, cwd, env, chunk)
			desc = fmt.Sprintf("process(real clock, cwd=%s, %d env vars, GOMAXPROCS=%d, stdin chunk=%d)", filepath.Base(cwd), len(env), gmp, chunk)
			w.Fault("stdin_chunking")
			if code != 0 {
				w.Step("run %d: %s -> exit %d", i, desc, code)
				w.Violate("plugin-failed|process", fmt.Sprintf("%s with %q: exit status %d", tg.name, params, code))
				break
			}
		} else {
			resp, err := srv.do(genReq{Request: raw, ClockNs: int64(clock), Cwd: cwd, Env: env, GoMaxProcs: gmp})
			if err != nil {
				// run() exits the process on failure: show the cause through the binary
				_, code := runBinary(tt, raw, cwd, env, 1<<20)
				w.Violate("plugin-failed|in-process", fmt.Sprintf("%s with %q: the plug-in's run() terminated the helper (%v); the binary exits with %d", tg.name, params, err, code))
				srv = startServer(tt)
				break
			}
			if resp.Panic != "" {
				w.Violate("plugin-panicked", fmt.Sprintf("%s with %q: %s", tg.name, params, resp.Panic))
				break
			}
			got = resp.Response
			desc = fmt.Sprintf("in-process(clock=%s, cwd=%s, %d env vars, GOMAXPROCS=%d)", resp.Now, filepath.Base(cwd), len(env), gmp)
			w.Fault("clock_moved")
			if clock < spanMin {
				spanMin = clock
			}
			if clock > spanMax {
				spanMax = clock
			}
		}
		w.Step("run %d: %s -> %d response bytes", i, desc, len(got))
		w.Fault("cwd_changed")
		w.Fault("env_changed")
		if i == 0 {
			first, firstDesc = got, desc
			byProduct(w, tg.name, params, got)
			// (the extra special names of some variants do not match the checked-in message types, so those are not compiled)
			if w.Pending() == "" && !strings.Contains(params, "specialname=Name") && ((strings.HasPrefix(tg.name, "multi-") || tg.goreq != nil) && rapid.Bool().Draw(t, "compilemulti") || strings.Contains(params, "apiversion=V2") && rapid.IntRange(0, 3).Draw(t, "compileapicase") == 0 || rapid.IntRange(0, 15).Draw(t, "compile") == 0) {
				compileCheck(w, tt, tg, params, got)
			}
			continue
		}
		if !bytes.Equal(got, first) {
			w.Violate("nondeterministic-output", fmt.Sprintf("%s with %q: %s and %s give different responses (%d vs %d bytes; first difference at byte %d: %q vs %q)",
				tg.name, params, firstDesc, desc, len(first), len(got), firstDiff(first, got), around(first, firstDiff(first, got)), around(got, firstDiff(first, got))))
			break
		}
	}
	if spanMax > spanMin {
		w.Extra["simulated_clock_span_s"] = (spanMax - spanMin).Seconds()
	}
	w.Probes["generator_runs"] += int64(nrep)
	w.State(tg.name)
	w.EndNontrivial()
	if sig := w.Pending(); sig != "" {
		t.Fatalf("%s", sig)
	}
}

// byProduct: observed because the pipeline produces the response anyway (not simulation): no error, distinct
// file names, every file parses as Go.
func byProduct(w *rep.Worker, name, params string, raw []byte) {
	resp := &pluginpb.CodeGeneratorResponse{}
	if err := proto.Unmarshal(raw, resp); err != nil {
		w.Violate("response-unparseable", fmt.Sprintf("%s with %q: %v", name, params, err))
		return
	}
	if resp.Error != nil {
		w.Violate("plugin-reported-error", fmt.Sprintf("%s with %q: %s", name, params, resp.GetError()))
		return
	}
	seen := map[string]bool{}
	for _, f := range resp.File {
		if seen[f.GetName()] {
			w.Violate("output-file-emitted-twice", fmt.Sprintf("%s with %q: %s", name, params, f.GetName()))
			return
		}
		seen[f.GetName()] = true
		if !strings.HasSuffix(f.GetName(), ".pb.fm.go") {
			w.Violate("output-file-name", fmt.Sprintf("%s with %q: %s", name, params, f.GetName()))
			return
		}
		if _, err := parser.ParseFile(token.NewFileSet(), f.GetName(), f.GetContent(), parser.AllErrors); err != nil {
			w.Violate("output-not-valid-go", fmt.Sprintf("%s with %q: %s: %v", name, params, f.GetName(), err))
			return
		}
	}
	w.Probes["output_files_parsed"] += int64(len(resp.File))
}

// compileCheck (by-product, not simulation): the emitted files must compile together with the message types
// generated for the corresponding runtime. A scratch copy of the example module receives the files.
func compileCheck(w *rep.Worker, tt *testing.T, tg target, params string, raw []byte) {
	resp := &pluginpb.CodeGeneratorResponse{}
	if proto.Unmarshal(raw, resp) != nil || resp.Error != nil {
		return
	}
	repo := filepath.Join(os.Getenv("VERIF_WORKDIR"), "repo")
	if tg.goreq != nil {
		compileSynthetic(w, tt, tg, params, resp, repo)
		return
	}
	mod := filepath.Join(tt.TempDir(), "example")
	if out, err := exec.Command("cp", "-r", filepath.Join(repo, "example"), mod).CombinedOutput(); err != nil {
		tt.Fatalf("HARNESS: %v %s", err, out)
	}
	gm, _ := os.ReadFile(filepath.Join(mod, "go.mod"))
	_ = os.WriteFile(filepath.Join(mod, "go.mod"), bytes.Replace(gm, []byte("=> ../"), []byte("=> "+repo), 1), 0o644)
	pkgs := map[string]bool{}
	for _, d := range tg.dirs {
		pkgs[d] = true
		ents, _ := os.ReadDir(filepath.Join(mod, d))
		for _, e := range ents {
			if strings.HasSuffix(e.Name(), ".pb.fm.go") {
				_ = os.Remove(filepath.Join(mod, d, e.Name()))
			}
		}
	}
	for _, f := range resp.File {
		dir := ""
		for prefix, d := range tg.dirs {
			if strings.HasPrefix(filepath.Base(f.GetName()), prefix) {
				dir = d
			}
		}
		if dir == "" {
			w.Violate("output-file-name", fmt.Sprintf("%s with %q: cannot place %s next to its proto file", tg.name, params, f.GetName()))
			return
		}
		_ = os.WriteFile(filepath.Join(mod, dir, filepath.Base(f.GetName())), []byte(f.GetContent()), 0o644)
	}
	args := []string{"build"}
	for d := range pkgs {
		args = append(args, "./"+d)
	}
	sort.Strings(args[1:])
	cmd := exec.Command("go", args...)
	cmd.Dir = mod
	cmd.Env = append(os.Environ(), "GOFLAGS=-mod=mod", "GOPROXY=off", "GOSUMDB=off", "GOTOOLCHAIN=local")
	out, err := cmd.CombinedOutput()
	w.Probes["outputs_compiled"]++
	if err != nil {
		w.Step("go build of the emitted files for %s", tg.name)
		w.Violate("output-does-not-compile", fmt.Sprintf("%s with %q: %s", tg.name, params, clipS(string(out), 600)))
	}
}

// compileSynthetic builds a scratch module from scratch: protoc-gen-go (built from the module cache) emits the
// message types for the synthetic schema, the plug-in's files are placed next to them, and everything is compiled.
func compileSynthetic(w *rep.Worker, tt *testing.T, tg target, params string, resp *pluginpb.CodeGeneratorResponse, repo string) {
	mod := filepath.Join(tt.TempDir(), "synthetic")
	_ = os.MkdirAll(mod, 0o755)
	gen := exec.Command(filepath.Join(os.Getenv("VERIF_BIN"), "protoc-gen-go"))
	gen.Stdin = bytes.NewReader(tg.goreq)
	var out bytes.Buffer
	gen.Stdout = &out
	if err := gen.Run(); err != nil {
		tt.Fatalf("HARNESS: protoc-gen-go failed: %v", err)
	}
	goResp := &pluginpb.CodeGeneratorResponse{}
	if err := proto.Unmarshal(out.Bytes(), goResp); err != nil || goResp.Error != nil {
		tt.Fatalf("HARNESS: protoc-gen-go: %v %s", err, goResp.GetError())
	}
	write := func(name, content string) {
		p := filepath.Join(mod, name)
		_ = os.MkdirAll(filepath.Dir(p), 0o755)
		_ = os.WriteFile(p, []byte(content), 0o644)
	}
	for _, f := range goResp.File {
		write(f.GetName(), f.GetContent())
	}
	for _, f := range resp.File {
		write(f.GetName(), f.GetContent())
	}
	write("go.mod", "module example.com/verif\n\ngo 1.21\n\nrequire (\n\tgithub.com/CrowdStrike/csproto v0.0.0\n\tgoogle.golang.org/protobuf v1.36.4\n)\n\nreplace github.com/CrowdStrike/csproto => "+repo+"\n")
	sum, _ := os.ReadFile(filepath.Join(repo, "go.sum"))
	write("go.sum", string(sum))
	cmd := exec.Command("go", "build", "./...")
	cmd.Dir = mod
	cmd.Env = append(os.Environ(), "GOFLAGS=-mod=mod", "GOPROXY=off", "GOSUMDB=off", "GOTOOLCHAIN=local")
	bout, err := cmd.CombinedOutput()
	w.Probes["outputs_compiled"]++
	w.Probes["synthetic_schema_compiled"]++
	if err != nil {
		w.Step("go build of the emitted files for %s (message types from protoc-gen-go)", tg.name)
		w.Violate("output-does-not-compile", fmt.Sprintf("%s with %q: %s", tg.name, params, clipS(string(bout), 600)))
	}
}

func clipS(s string, n int) string {
	if len(s) > n {
		return s[:n]
	}
	return s
}

func firstDiff(a, b []byte) int {
	n := len(a)
	if len(b) < n {
		n = len(b)
	}
	for i := 0; i < n; i++ {
		if a[i] != b[i] {
			return i
		}
	}
	return n
}

func around(b []byte, i int) string {
	lo, hi := i-30, i+30
	if lo < 0 {
		lo = 0
	}
	if hi > len(b) {
		hi = len(b)
	}
	return string(b[lo:hi])
}

func TestC16Env(t *testing.T) {
	w := rep.NewWorker(t, "C16", "envsim")
	defer w.Finish()
	targets = loadTargets(t)
	srv = startServer(t)
	defer func() { srv.in.Close(); _ = srv.cmd.Wait() }()
	rapid.Check(t, func(rt *rapid.T) { runC16(rt, w, t) })
}
