// Package rep is the worker-side reporting layer shared by all simulated checks: per-run step log,
// violation capture with root-cause signatures, known-finding filtering, statistics and the worker
// result file that the driver merges into /verif/evidence/<id>.json.
package rep

import (
	"encoding/json"
	"fmt"
	"hash/fnv"
	"os"
	"path/filepath"
	"regexp"
	"runtime/debug"
	"sort"
	"strconv"
	"strings"
	"sync/atomic"
	"syscall"
	"testing"
	"time"
)

// Violation is one falsification of a property by the code under test.
type Violation struct {
	Property  string   `json:"property"`
	Signature string   `json:"signature"`
	Detail    string   `json:"detail"`
	Step      int      `json:"step"`
	Steps     []string `json:"steps"`
	Config    string   `json:"config,omitempty"`
	Race      string   `json:"race_report,omitempty"`
}

type knownFinding struct {
	Property  string `json:"property"`
	Signature string `json:"signature"`
	WhatFails string `json:"what_fails"`
	Status    string `json:"status"`
}

// Worker accumulates statistics over all executions of one rapid check in this process.
type Worker struct {
	Property string
	Test     string
	Tier     string
	Seed     uint64
	t        *testing.T
	out      string
	start    time.Time

	known map[string]string // signature -> what_fails (status open only)

	Runs      int64
	StepsTot  int64
	Faults    map[string]int64
	Probes    map[string]int64
	KnownHits map[string]int64
	distinct  map[uint64]struct{}
	states    map[string]struct{}
	scheds    map[uint64]struct{}
	samples   []any
	Extra     map[string]any

	// per-execution
	steps   []string
	config  string
	viol    *Violation
	runHash uint64

	evlog                 *os.File // determinism self-test: one line per execution
	steplog               *os.File // debugging aid: every step line
	steplogN, steplogRing int      // bytes written since the last truncation; VERIF_STEPLOG_RING > 0 keeps only that many
	nsteps0               int64

	// termination watchdog (real clock, used for nothing but detecting a call that never returns)
	watchOp  atomic.Pointer[string]
	watchSeq atomic.Uint64

	// first race-class violation seen in any execution (race reports are not perfectly repeatable:
	// the detector keeps a bounded access history per memory word)
	anyRace *Violation
}

// NewWorker reads the worker environment (VERIF_OUT, VERIF_KNOWN, VERIF_TIER).
func NewWorker(t *testing.T, property, test string) *Worker {
	w := &Worker{
		Property: property, Test: test, t: t,
		Tier: os.Getenv("VERIF_TIER"), out: os.Getenv("VERIF_OUT"), start: time.Now(),
		known: map[string]string{}, Faults: map[string]int64{}, Probes: map[string]int64{},
		KnownHits: map[string]int64{}, distinct: map[uint64]struct{}{}, states: map[string]struct{}{},
		scheds: map[uint64]struct{}{}, Extra: map[string]any{},
	}
	if s := os.Getenv("VERIF_WORKER_SEED"); s != "" {
		w.Seed, _ = strconv.ParseUint(s, 10, 64)
	}
	go w.watchdog()
	if p := os.Getenv("VERIF_STEPLOG"); p != "" {
		w.steplog, _ = os.Create(p)
		w.steplogRing, _ = strconv.Atoi(os.Getenv("VERIF_STEPLOG_RING"))
	}
	if p := os.Getenv("VERIF_EVENTLOG"); p != "" {
		w.evlog, _ = os.Create(p)
	}
	if p := os.Getenv("VERIF_KNOWN"); p != "" {
		b, err := os.ReadFile(p)
		if err != nil {
			t.Fatalf("cannot read known findings %s: %v", p, err)
		}
		var kf struct {
			Findings []knownFinding `json:"findings"`
		}
		if err := json.Unmarshal(b, &kf); err != nil {
			t.Fatalf("cannot parse known findings %s: %v", p, err)
		}
		for _, f := range kf.Findings {
			if f.Property == property && f.Status == "open" {
				w.known[f.Signature] = f.WhatFails
			}
		}
	}
	return w
}

func (w *Worker) flushEvent() {
	if w.evlog == nil || w.Runs == 0 {
		return
	}
	sig := "-"
	if w.viol != nil {
		sig = w.viol.Signature
	}
	fmt.Fprintf(w.evlog, "%d %016x %d %s\n", w.Runs, w.runHash, w.StepsTot-w.nsteps0, sig)
}

// WatchBegin marks the start of a call into the code under test; WatchEnd its return. If a call does not
// return within the limit the watchdog reports "did-not-terminate" as a violation and ends the process (a
// goroutine stuck in a loop cannot be unwound).
func (w *Worker) WatchBegin(op *string) {
	w.watchSeq.Add(1)
	w.watchOp.Store(op)
}

// WatchEnd marks the return of the call started by WatchBegin.
func (w *Worker) WatchEnd() { w.watchOp.Store(nil) }

// processCPU is the processor time (user + system) this process has used so far.
func processCPU() time.Duration {
	var ru syscall.Rusage
	if syscall.Getrusage(syscall.RUSAGE_SELF, &ru) != nil {
		return 0
	}
	return time.Duration(ru.Utime.Nano() + ru.Stime.Nano())
}

func (w *Worker) watchdog() {
	limit := 20 * time.Second
	if v := ParamInt("call_timeout_s", 0); v > 0 {
		limit = time.Duration(v) * time.Second
	}
	var lastSeq uint64
	var since time.Time
	var cpu0 time.Duration
	for {
		time.Sleep(250 * time.Millisecond)
		op := w.watchOp.Load()
		seq := w.watchSeq.Load()
		if op == nil || seq != lastSeq {
			lastSeq, since = seq, time.Now()
			continue
		}
		if time.Since(since) < limit {
			cpu0 = processCPU()
			continue
		}
		// a call that spins burns processor time; a process that was merely not run (machine overloaded, memory
		// reclaim, a stopped VM) does not. Without that evidence the verdict waits fifteen times as long.
		if processCPU()-cpu0 < limit/2 && time.Since(since) < 15*limit {
			continue
		}
		// the main goroutine is stuck inside the code under test: report and leave
		v := &Violation{Property: w.Property, Signature: "did-not-terminate|" + *op,
			Detail: fmt.Sprintf("%s did not return within %v (the process is ended; replay re-executes the same worker seed)", *op, limit),
			Step:   len(w.steps), Steps: append([]string(nil), w.steps...), Config: w.config}
		res := result{Status: "violation", Property: w.Property, Test: w.Test, Seed: w.Seed, WallS: time.Since(w.start).Seconds(),
			Runs: w.Runs, Steps: w.StepsTot, Faults: map[string]int64{}, Probes: map[string]int64{}, KnownHits: map[string]int64{}, KnownText: map[string]string{}, Violation: v}
		if w.out != "" {
			b, _ := json.MarshalIndent(res, "", " ")
			_ = os.WriteFile(w.out, b, 0o644)
		}
		os.Exit(1)
	}
}

// Begin starts one execution (one rapid check).
func (w *Worker) Begin(config string) {
	w.flushEvent()
	w.nsteps0 = w.StepsTot
	w.Runs++
	w.steps = w.steps[:0]
	w.viol = nil
	w.config = config
	w.runHash = 1469598103934665603
}

// Step appends one line to the current execution's step log.
func (w *Worker) Step(format string, a ...any) {
	w.StepsTot++
	line := fmt.Sprintf(format, a...)
	if w.steplog != nil {
		n, _ := fmt.Fprintf(w.steplog, "%d| %s\n", w.Runs, line)
		if w.steplogN += n; w.steplogRing > 0 && w.steplogN > w.steplogRing {
			// ring mode: only what precedes an abrupt end matters
			_ = w.steplog.Truncate(0)
			_, _ = w.steplog.Seek(0, 0)
			w.steplogN = 0
		}
	}
	w.MixS(line)
	w.steps = append(w.steps, line)
}

// Trace writes a line to the step log file only (when one is configured): what is about to be tried, so that an
// abrupt end of the process leaves a record of it. It does not touch the execution's fingerprint or step count.
func (w *Worker) Trace(format string, a ...any) {
	if w.steplog == nil {
		return
	}
	n, _ := fmt.Fprintf(w.steplog, "%d> %s\n", w.Runs, fmt.Sprintf(format, a...))
	if w.steplogN += n; w.steplogRing > 0 && w.steplogN > w.steplogRing {
		_ = w.steplog.Truncate(0)
		_, _ = w.steplog.Seek(0, 0)
		w.steplogN = 0
	}
}

// Tracing reports whether Trace writes anywhere (so callers can skip formatting large arguments).
func (w *Worker) Tracing() bool { return w.steplog != nil }

// Note appends to the log without counting a step.
func (w *Worker) Note(format string, a ...any) {
	w.steps = append(w.steps, "  "+fmt.Sprintf(format, a...))
}

// NSteps is the number of log lines of the current execution.
func (w *Worker) NSteps() int { return len(w.steps) }

// Mix folds a value into the fingerprint of the current execution.
func (w *Worker) Mix(v uint64) {
	w.runHash ^= v
	w.runHash *= 1099511628211
}

// MixS folds a string into the fingerprint of the current execution.
func (w *Worker) MixS(s string) {
	h := fnv.New64a()
	h.Write([]byte(s))
	w.Mix(h.Sum64())
}

// EndNontrivial records the current execution as non-trivial (by the property's stated rule).
func (w *Worker) EndNontrivial() {
	w.distinct[w.runHash] = struct{}{}
	if len(w.samples) < 3 && w.viol == nil {
		cp := append([]string(nil), w.steps...)
		if len(cp) > 60 {
			cp = append(cp[:60], fmt.Sprintf("... %d more steps", len(w.steps)-60))
		}
		w.samples = append(w.samples, map[string]any{"config": w.config, "steps": cp})
	}
}

// WantDetail reports whether expensive descriptive notes are worth producing for the current execution:
// a violation is pending or a sample is still needed for the evidence.
func (w *Worker) WantDetail() bool { return w.viol != nil || len(w.samples) < 3 }

// State records an abstract state as reached.
func (w *Worker) State(s string) { w.states[s] = struct{}{} }

// Sched records a distinct schedule fingerprint.
func (w *Worker) Sched(h uint64) { w.scheds[h] = struct{}{} }

// Fault counts a fault that actually fired.
func (w *Worker) Fault(kind string) { w.Faults[kind]++ }

// Probe counts a "this condition was reached" probe.
func (w *Worker) Probe(kind string) { w.Probes[kind]++ }

// Violate records a violation. It returns true if the signature is a listed open known finding, in
// which case the caller must retire the affected object and continue; otherwise the violation is
// pending and Pending() will report it at the next invariant check.
func (w *Worker) Violate(sig, detail string) (known bool) {
	if _, ok := w.known[sig]; ok {
		w.KnownHits[sig]++
		w.Note("KNOWN-FINDING %s: %s", sig, detail)
		return true
	}
	if w.viol == nil {
		w.viol = &Violation{Property: w.Property, Signature: sig, Detail: detail, Step: len(w.steps)}
		w.Note("VIOLATION %s: %s", sig, detail)
		if (strings.HasPrefix(sig, "race|") || strings.HasPrefix(sig, "nondeterministic-output") || strings.HasPrefix(sig, "unmarshal-outcome-depends-on-process-history")) && w.anyRace == nil {
			v := *w.viol
			v.Steps = append([]string(nil), w.steps...)
			v.Config = w.config
			w.anyRace = &v
		}
	}
	return false
}

// Pending returns the signature of the pending violation, or "".
func (w *Worker) Pending() string {
	if w.viol == nil {
		return ""
	}
	return w.viol.Signature
}

// AttachRace adds a race report to the pending violation.
func (w *Worker) AttachRace(s string) {
	if w.viol != nil {
		w.viol.Race = s
		if w.anyRace != nil && w.anyRace.Race == "" {
			w.anyRace.Race = s
		}
	}
}

type result struct {
	Status    string            `json:"status"` // ok | violation | flaky
	Property  string            `json:"property"`
	Test      string            `json:"test"`
	Seed      uint64            `json:"seed"`
	WallS     float64           `json:"wall_s"`
	Runs      int64             `json:"runs"`
	Steps     int64             `json:"steps"`
	Faults    map[string]int64  `json:"faults"`
	Probes    map[string]int64  `json:"probes"`
	KnownHits map[string]int64  `json:"known_hits"`
	KnownText map[string]string `json:"known_text"`
	Distinct  []string          `json:"distinct"`
	// above 2^20 fingerprints a worker reports their number and a k-minimum-values sketch (the 2^16 smallest
	// values of a mixed hash) instead of the list, from which the driver estimates the size of the union
	DistinctCount  int            `json:"distinct_count"`
	DistinctSketch []string       `json:"distinct_sketch,omitempty"`
	States         []string       `json:"states"`
	Scheds         []string       `json:"scheds"`
	Samples        []any          `json:"samples"`
	Extra          map[string]any `json:"extra"`
	Violation      *Violation     `json:"violation,omitempty"`
	FailFile       string         `json:"rapid_failfile,omitempty"`
	Message        string         `json:"message,omitempty"`
}

// Mix64 is the splitmix64 finaliser (the driver applies the same function to fingerprints reported as a list).
func Mix64(x uint64) uint64 {
	x ^= x >> 30
	x *= 0xbf58476d1ce4e5b9
	x ^= x >> 27
	x *= 0x94d049bb133111eb
	x ^= x >> 31
	return x
}

// Finish must be deferred by the test function; it writes the worker result file.
func (w *Worker) Finish() {
	w.flushEvent()
	if w.evlog != nil {
		w.evlog.Close()
	}
	res := result{
		Status: "ok", Property: w.Property, Test: w.Test, Seed: w.Seed,
		WallS: time.Since(w.start).Seconds(), Runs: w.Runs, Steps: w.StepsTot,
		Faults: w.Faults, Probes: w.Probes, KnownHits: w.KnownHits, KnownText: map[string]string{},
		Samples: w.samples, Extra: w.Extra,
	}
	for s := range w.KnownHits {
		res.KnownText[s] = w.known[s]
	}
	res.DistinctCount = len(w.distinct)
	if len(w.distinct) > 1<<20 {
		hs := make([]uint64, 0, len(w.distinct))
		for h := range w.distinct {
			hs = append(hs, Mix64(h))
		}
		sort.Slice(hs, func(i, j int) bool { return hs[i] < hs[j] })
		for _, h := range hs[:1<<16] {
			res.DistinctSketch = append(res.DistinctSketch, strconv.FormatUint(h, 16))
		}
	} else {
		for h := range w.distinct {
			res.Distinct = append(res.Distinct, strconv.FormatUint(h, 16))
		}
		sort.Strings(res.Distinct)
	}
	for s := range w.states {
		res.States = append(res.States, s)
	}
	sort.Strings(res.States)
	for h := range w.scheds {
		res.Scheds = append(res.Scheds, strconv.FormatUint(h, 16))
	}
	sort.Strings(res.Scheds)
	if r := recover(); r != nil {
		res.Status = "error"
		res.Message = fmt.Sprintf("harness panic: %v\n%s", r, debug.Stack())
	} else if w.t.Failed() {
		if w.viol != nil {
			// the last execution rapid performs after a failure is the minimised one
			res.Status = "violation"
			v := *w.viol
			v.Steps = append([]string(nil), w.steps...)
			v.Config = w.config
			res.Violation = &v
			res.FailFile = newestFailFile()
		} else if w.anyRace != nil {
			// a race report is sound evidence even if the detector does not repeat it on the final replay
			res.Status = "violation"
			v := *w.anyRace
			v.Detail = "[the report did not recur on the final minimised replay (race reports and nondeterministic output are not perfectly repeatable); this is the first execution that showed it] " + v.Detail
			res.Violation = &v
			res.FailFile = newestFailFile()
		} else {
			res.Status = "flaky"
			res.Message = "test failed but the final (minimised) execution recorded no violation"
		}
	}
	if w.out != "" {
		b, _ := json.MarshalIndent(res, "", " ")
		_ = os.WriteFile(w.out, b, 0o644)
	}
}

func newestFailFile() string {
	if p := os.Getenv("VERIF_REPLAY_FAILFILE"); p != "" {
		b, err := os.ReadFile(p)
		if err == nil {
			return string(b)
		}
	}
	m, _ := filepath.Glob("testdata/rapid/*/*.fail")
	var best string
	var bt time.Time
	for _, f := range m {
		st, err := os.Stat(f)
		if err == nil && st.ModTime().After(bt) {
			best, bt = f, st.ModTime()
		}
	}
	if best == "" {
		return ""
	}
	b, _ := os.ReadFile(best)
	return string(b)
}

var frameRe = regexp.MustCompile(`(?m)^(github\.com/CrowdStrike/csproto[^\s(]*(?:\([^)]*\))?[^\s(]*)\(`)

// IsChoicePanic reports whether a recovered value is one of the choice source's own control-flow
// panics (rapid unwinding an execution); those must be re-panicked, never judged.
func IsChoicePanic(r any) bool {
	return strings.HasPrefix(fmt.Sprintf("%T", r), "rapid.")
}

// PanicSig builds a root-cause signature for a recovered panic: class of the runtime error plus the
// innermost csproto (library or generated) function on the stack — no line numbers, no addresses.
func PanicSig(op string, r any, stack []byte) string {
	msg := fmt.Sprint(r)
	class := "panic"
	switch {
	case strings.Contains(msg, "nil pointer dereference"):
		class = "nil-deref"
	case strings.Contains(msg, "index out of range"):
		class = "index-out-of-range"
	case strings.Contains(msg, "slice bounds out of range"):
		class = "slice-bounds"
	case strings.Contains(msg, "makeslice"):
		class = "makeslice"
	case strings.Contains(msg, "interface conversion"):
		class = "iface-conversion"
	}
	fn := "?"
	if m := frameRe.FindSubmatch(stack); m != nil {
		fn = string(m[1])
		fn = strings.TrimPrefix(fn, "github.com/CrowdStrike/csproto")
		fn = strings.TrimPrefix(strings.TrimPrefix(fn, "/"), ".")
	}
	return fmt.Sprintf("panic|%s|%s|%s", class, fn, op)
}

// ParamInt reads an integer tier parameter passed by the driver in VERIF_PARAMS.
func ParamInt(name string, def int) int {
	var m map[string]any
	if err := json.Unmarshal([]byte(os.Getenv("VERIF_PARAMS")), &m); err != nil {
		return def
	}
	if v, ok := m[name].(float64); ok {
		return int(v)
	}
	return def
}
