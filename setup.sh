#!/bin/bash
# Offline setup: warm the Go build cache for the harness (normal and -race builds). Builds from files on disk only.
set -e
cd "$(dirname "$0")"
export GOFLAGS=-mod=mod GOPROXY=off GOSUMDB=off GOTOOLCHAIN=local
mkdir -p evidence replays
W=$(mktemp -d "${TMPDIR:-/tmp}/verif-setup-XXXXXX")
trap 'rm -rf "$W"' EXIT
for id in $(python3 -c "import sys; sys.path.insert(0,'.'); from props import PROPS; print(' '.join(sorted(PROPS)))"); do
  ./check build "$id" "$W/$id" >/dev/null 2>"$W/$id.log" || { cat "$W/$id.log"; echo "setup: build for $id failed"; exit 1; }
  rm -rf "$W/$id"
  echo "setup: $id built"
done
echo "setup: done"
