#!/bin/bash
# Runs every claimed check's thorough tier, one after the other, and prints a one-line summary each.
cd "$(dirname "$0")/.."
for id in ${@:-$(python3 -c "import sys; sys.path.insert(0,'.'); from props import PROPS; print(' '.join(sorted(PROPS)))")}; do
  start=$(date +%s)
  ./check "$id" thorough > "thorough-$id.log" 2>&1
  rc=$?
  echo "== $id thorough exit=$rc wall=$(( $(date +%s) - start ))s"
  grep -a "^\[check\] violation\|^VIOLATION\|thorough:\|^INFRA\|^KNOWN-FINDING" "thorough-$id.log" | cut -c1-400 | head -12
done
