#!/bin/bash
# For every kept seeded change: verify it (suite passes with it, demonstration fails with it and passes without it)
# and run the check(s) named in meta.json against it in a scratch worktree. Results go to seeded/<name>/last_check.json.
cd "$(dirname "$0")/../seeded"
for d in ${@:-$(ls -d */ | tr -d /)}; do
  [ -f "$d/meta.json" ] || continue
  out=$(../tools/verify_seeded.py "$d" ${VERIFY_MODE:---check} 2>&1)
  echo "$out" | python3 -c "
import sys, json
txt = sys.stdin.read()
i = txt.find('{\n')
try:
    res = json.loads(txt[i:]) if i >= 0 else {'raw': txt[-2000:]}
except Exception:
    res = {'raw': txt[-2000:]}
res['repo_head'] = '$(git -C /repo rev-parse --short HEAD)'
res['verif_head'] = '$(git -C /verif rev-parse --short HEAD)'
json.dump(res, open('$d/last_check.json', 'w'), indent=1)
checks = {k: v for k, v in res.items() if k.startswith('check_')}
print('$d', 'verified=%s' % (res.get('demo_with_change') == 'fail' and res.get('demo_without_change') == 'pass' and res.get('suite_with_change') == 'pass'),
      'caught=%s' % (bool(checks) and all(v.startswith('exit 1') for v in checks.values())), {k: v[:6] for k, v in checks.items()})
"
done
