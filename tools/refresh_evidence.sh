#!/bin/bash
# Re-run every claimed check's quick tier against /repo itself and rewrite /verif/evidence/*.json.
cd "$(dirname "$0")/.."
for id in $(python3 -c "import sys; sys.path.insert(0,'.'); from props import PROPS; print(' '.join(sorted(PROPS)))"); do
  if [ $# -gt 0 ] && [[ " $* " != *" $id "* ]]; then continue; fi
  ./check "$id" quick 2>/dev/null | tail -1
done
