#!/bin/bash
# usage: tools/regen_examples.sh <repo-dir>
# Regenerates example/**/*.pb.fm.go of the given copy of CrowdStrike/csproto from its own templates, without protoc:
# the CodeGeneratorRequests are rebuilt from the descriptors compiled into the checked-in *.pb.go files (sim/cmd/regen)
# and fed to protoc-gen-fastmarshal built from that copy. On the unchanged tree the output is byte-identical to the
# checked-in files. This is how the example files of the "fix:" commits that touch templates were produced.
set -eu
repo=$(readlink -f "$1")
d=$(mktemp -d /tmp/regen-XXXXXX)
trap 'rm -rf "$d"' EXIT
cd "$(dirname "$0")/.."
VERIF_REPO="$repo" ./check build C06 "$d" >/dev/null 2>&1 || { echo "build failed"; exit 2; }
"$d/bin/regen" -plugin "$d/bin/protoc-gen-fastmarshal" -example "$repo/example"
