#!/usr/bin/env python3
"""Verify a seeded change under /verif/seeded/<name>/ in a scratch worktree of /repo:
 (1) the existing suite passes with the change, (2) the demonstration fails with it, (3) the demonstration passes without it.
 Optionally (--check) also runs the registered check(s) against it. Never touches /repo's working tree."""
import json, os, subprocess, sys, tempfile, shutil

def sh(cmd, cwd, timeout=1800):
    env = dict(os.environ, GOFLAGS="-mod=mod", GOPROXY="off", GOSUMDB="off", GOTOOLCHAIN="local")
    p = subprocess.run(cmd, cwd=cwd, shell=True, env=env, stdout=subprocess.PIPE, stderr=subprocess.STDOUT, text=True, timeout=timeout)
    return p.returncode, p.stdout

def main():
    d = os.path.abspath(sys.argv[1]); run_check = "--check" in sys.argv or "--check-only" in sys.argv
    check_only = "--check-only" in sys.argv  # the change was verified before (suite, demonstration): only re-run the checks
    meta = json.load(open(os.path.join(d, "meta.json")))
    wt = tempfile.mkdtemp(prefix="seedv-", dir="/tmp")
    os.rmdir(wt)
    subprocess.run(["git", "-C", "/repo", "worktree", "add", "-q", "--detach", wt, meta.get("base", "HEAD")], check=True)
    res = {}
    try:
        def install():
            for it in meta["demo_install"]:
                dst = os.path.join(wt, it["dst"]); os.makedirs(os.path.dirname(dst), exist_ok=True)
                shutil.copy(os.path.join(d, it["src"]), dst)
        def uninstall():
            for it in meta["demo_install"]:
                try: os.remove(os.path.join(wt, it["dst"]))
                except FileNotFoundError: pass
        prev = {}
        if check_only:
            try: prev = json.load(open(os.path.join(d, "last_check.json")))
            except Exception: prev = {}
            for k in ("demo_without_change", "suite_with_change", "demo_with_change", "demo_tail"):
                if k in prev: res[k] = prev[k]
            res["demo_and_suite_from_earlier_run"] = True
        # (3) demo passes without the change
        if not check_only:
            install(); rc, out = sh(meta["demo_cmd"], wt); res["demo_without_change"] = "pass" if rc == 0 else "FAIL"; uninstall()
            if rc != 0: print(out[-2000:])
        rc, out = sh("git apply " + os.path.join(d, "patch.diff"), wt)
        if rc != 0:
            # the regenerated example files of the patch no longer match this base: apply the source part and
            # regenerate the examples from the patched templates
            rc, out = sh("git apply --exclude='*.pb.fm.go' " + os.path.join(d, "patch.diff"), wt)
            if rc != 0: print("patch does not apply:", out); sys.exit(2)
            rc, out = sh("/verif/tools/regen_examples.sh " + wt, "/verif", timeout=1800)
            if rc != 0: print("regeneration failed:", out); sys.exit(2)
            res["regenerated_examples"] = True
        if not check_only:
            # (1) suite passes with the change
            rc, out = sh("go build ./... && go test -vet=off -count=1 ./...", wt); res["suite_with_change"] = "pass" if rc == 0 else "FAIL"
            if rc != 0: print(out[-2000:])
            # (2) demo fails with the change
            install(); rc, out = sh(meta["demo_cmd"], wt); res["demo_with_change"] = "fail" if rc != 0 else "PASSES (not a demonstration)"; uninstall()
            res["demo_tail"] = out.strip().splitlines()[-6:]
        if run_check:
            for pid in meta["detected_by"] if "detected_by" in meta else [meta["property"]]:
                rc, out = sh("VERIF_REPO=%s ./check %s quick" % (wt, pid), "/verif", timeout=3600)
                res["check_" + pid] = "exit %d; %s" % (rc, [l for l in out.splitlines() if l.startswith("VIOLATION") or " quick: " in l][-3:])
    finally:
        subprocess.run(["git", "-C", "/repo", "worktree", "remove", "--force", wt])
        shutil.rmtree(wt, ignore_errors=True)
    print(json.dumps(res, indent=1))
    ok = res.get("demo_without_change") == "pass" and res.get("suite_with_change") == "pass" and res.get("demo_with_change") == "fail"
    sys.exit(0 if ok else 1)
main()
