#!/bin/bash
# usage: tools/mutant.sh <patch.diff> <property-id> [tier]
# Applies the patch to a scratch worktree of /repo (never to /repo itself), runs the check against it, removes the worktree.
set -u
patch=$(readlink -f "$1"); id=$2; tier=${3:-quick}
wt=$(mktemp -d /tmp/mut-XXXXXX)
git -C /repo worktree add -q --detach "$wt" HEAD >/dev/null 2>&1 || { echo "worktree failed"; exit 2; }
trap 'git -C /repo worktree remove --force "$wt" >/dev/null 2>&1; rm -rf "$wt"' EXIT
if ! git -C "$wt" apply "$patch"; then echo "PATCH DOES NOT APPLY"; exit 2; fi
cd /verif && VERIF_REPO="$wt" ./check "$id" "$tier" 2>&1 | grep -v "rapid\] draw" | tail -${TAILN:-25}
echo "check exit: ${PIPESTATUS[0]}"
