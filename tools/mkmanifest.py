#!/usr/bin/env python3
"""Regenerates MANIFEST.json from props.py (claimed checks) and the fixed not-applicable list."""
import json, os, sys
here = os.path.dirname(os.path.dirname(os.path.abspath(__file__)))
sys.path.insert(0, here)
from props import PROPS, NOT_APPLICABLE, HOOK_COMMITS

checks = []
for pid in sorted(PROPS):
    s = PROPS[pid]
    checks.append(dict(
        property_id=pid,
        quick_cmd="./check %s quick" % pid,
        thorough_cmd="./check %s thorough" % pid,
        evidence_file="evidence/%s.json" % pid,
        replay_cmd_template="./check %s --replay {path}" % pid,
        engine=s["engine"],
        level_claimed=dict(category=s["level"], text=s["level_text"], design_ref=s["design_ref"]),
        level_note=s["level_note"],
        technique=s["technique"],
    ))
m = dict(
    version=1,
    setup_cmd="./setup.sh",
    hooks=dict(
        guard="verif-scratch-instrumentation",
        enable=("no hook code is committed to /repo: every check copies /repo's working tree to a scratch directory and rewrites the copy "
                "(sync.Pool -> verifPool and sync.Map -> verifSyncMap type swaps, yields before sync/atomic calls in regenerated code, "
                "added verif_*.go files); see DESIGN.md section 3"),
        baseline_off_cmd="cd /repo && GOFLAGS=-mod=mod go test -json -vet=off -count=1 -timeout 25m ./...",
        source_commits=HOOK_COMMITS,
        add_only=True,
    ),
    engines=[
        dict(name="hist", path="sim/c14, sim/c03, ...", serves_properties=[p for p in sorted(PROPS) if "hist" in PROPS[p]["engine"]],
             kind_free_text="seeded operation/fault histories (pgregory.net/rapid as the single choice source, shrinking) against reference models and self-differential oracles"),
        dict(name="coop", path="sim/coop", serves_properties=[p for p in sorted(PROPS) if "coop" in PROPS[p]["engine"]],
             kind_free_text="cooperative scheduler: real goroutines, one runnable at a time, next one chosen from the seed; token passing hidden from the race detector so only the library's own synchronisation creates happens-before edges"),
        dict(name="simpool", path="sim/simpool", serves_properties=[p for p in sorted(PROPS) if "simpool" in PROPS[p]["engine"]],
             kind_free_text="seeded model of the sync.Pool contract with drop/miss/gc-clear faults"),
        dict(name="medium", path="sim/wirex", serves_properties=[p for p in sorted(PROPS) if "medium" in PROPS[p]["engine"]],
             kind_free_text="faulty byte store: truncation, bit flips, inflated lengths, poisoned tails placed relative to the writer's boundary log"),
        dict(name="envsim", path="sim/c16, sim/inject/fastmarshal", serves_properties=[p for p in sorted(PROPS) if "envsim" in PROPS[p]["engine"]],
             kind_free_text="the generator's real run() inside a testing/synctest bubble (positioned fake clock) with drawn working directory, environment and GOMAXPROCS, plus the built binary with drawn stdin chunking"),
        dict(name="iosim", path="sim/c20, sim/inject/protodump", serves_properties=[p for p in sorted(PROPS) if "iosim" in PROPS[p]["engine"]],
             kind_free_text="simulated io.Reader (short reads, zero-length reads, error after n bytes) in front of protodump's dump routine; stdin as file / pipe / -file at process level"),
    ],
    checks=checks,
    not_applicable=[dict(property_id=k, reason=v) for k, v in sorted(NOT_APPLICABLE.items()) if k not in PROPS],
    notes="Deterministic simulation with fault injection; see DESIGN.md. known_findings.json lists genuine defects (fixed or open).",
)
json.dump(m, open(os.path.join(here, "MANIFEST.json"), "w"), indent=1)
print("MANIFEST.json: %d checks, %d not applicable" % (len(checks), len(m["not_applicable"])))
